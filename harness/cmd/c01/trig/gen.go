package trig

import (
	"math"

	"verifharness/lib"
	"verifharness/pipe"
)

// ---------- stream building in "logical" sample values ----------
// Unsigned channels: logical = raw in 0..65535. Signed channels: logical in -32768..32767, raw = logical & 0xffff.

func toRaw(logical []int, signed bool) []int {
	out := make([]int, len(logical))
	for i, v := range logical {
		if signed {
			if v < -32768 {
				v = -32768
			}
			if v > 32767 {
				v = 32767
			}
			out[i] = v & 0xffff
		} else {
			if v < 0 {
				v = 0
			}
			if v > 65535 {
				v = 65535
			}
			out[i] = v
		}
	}
	return out
}

// addPulse: instantaneous rise of amp at `at`, linear decay over `decay` samples.
func addPulse(x []int, at, amp, decay int) {
	if decay < 1 {
		decay = 1
	}
	for i := at; i < len(x) && i < at+decay; i++ {
		if i >= 0 {
			x[i] += amp * (decay - (i - at)) / decay
		}
	}
}

// addStep: permanent step of amp from `at` on.
func addStep(x []int, at, amp int) {
	for i := at; i < len(x); i++ {
		if i >= 0 {
			x[i] += amp
		}
	}
}

// addRamp: slow ramp of total height h over [at, at+width), staying up afterwards.
func addRamp(x []int, at, width, h int) {
	if width < 1 {
		width = 1
	}
	for i := at; i < len(x); i++ {
		if i < 0 {
			continue
		}
		if i < at+width {
			x[i] += h * (i - at + 1) / width
		} else {
			x[i] += h
		}
	}
}

func cut(data []int, blocks []int) [][]int {
	var out [][]int
	p := 0
	for _, n := range blocks {
		out = append(out, data[p:p+n])
		p += n
	}
	return out
}

func boundaries(blocks []int) []int {
	var b []int
	p := 0
	for _, n := range blocks[:len(blocks)-1] {
		p += n
		b = append(b, p)
	}
	return b
}

// FirstFrames: the first-frame classes of DESIGN section 7 C01.
func pickF0(r *lib.Rng) int64 {
	switch r.Intn(8) {
	case 0, 1, 2:
		return 0
	case 3, 4:
		return int64(r.Range(1, 300))
	case 5:
		return (1 << 31) - int64(r.Range(0, 400))
	case 6:
		return (1 << 31) + int64(r.Range(0, 400))
	default:
		return (1 << 40) + int64(r.Range(0, 1000))
	}
}

func pickRate(r *lib.Rng) int64 { return []int64{10000, 10000, 125000, 1000000}[r.Intn(4)] }

// rates whose period is not a whole number of nanoseconds: realistic ones (300 kHz -> 3333 ns, 1e6/3 Hz -> 3000 ns vs
// 3000.000..3, a "measured" 156249.7 Hz) and fast ones where the rounding is gross (96 MHz -> 10 ns for 10.42,
// 70 MHz -> 14 for 14.29, 400 MHz -> 3 for 2.5, 3 MHz -> 333 for 333.3), so that short streams already show it
func pickFRate(r *lib.Rng) float64 {
	return []float64{300000, 1e6 / 3, 156249.7, 3e6, 7e7, 9.6e7, 9.6e7, 4e8, 4e8, 6.4e7}[r.Intn(10)]
}

// setRate gives the case an exact rate, or (one case in three) one with a fractional period
func setRate(r *lib.Rng, c *Case) {
	c.Rate = pickRate(r)
	if r.Chance(1, 3) {
		c.FRate = pickFRate(r)
	}
}

// delayFor: an auto delay of (about) k samples for the case's rate
func delayFor(c *Case, k int) int64 {
	if c.FRate > 0 {
		return int64(math.Round(float64(k) * 1e9 / c.FRate))
	}
	return delayNs(k, c.Rate)
}

func pickLengths(r *lib.Rng) (npre, nsamp int) {
	npre = r.Pick([]int{3, 3, 4, 5, 6, 8, 10, 12, 16})
	nsamp = npre + r.Pick([]int{1, 1, 2, 3, 4, 8, 12, 20, 30})
	if nsamp > 48 {
		nsamp = 48
	}
	return
}

// delay of k samples
func delayNs(k int, rate int64) int64 { return int64(k) * (1000000000 / rate) }

// RandTS draws trigger settings around a channel whose logical baseline is `base`.
func RandTS(r *lib.Rng, kinds string, nsamp int, c *Case, base int, signed bool) TS {
	t := TS{ELevel: int32(r.Pick([]int{40, 100, 100, 250, 1000})), ERising: true, LRising: true}
	for _, k := range kinds {
		switch k {
		case 'E':
			t.Edge = true
		case 'L':
			t.Level = true
		case 'A':
			t.Auto = true
		}
	}
	switch r.Intn(6) {
	case 0:
		t.ERising, t.EFalling = false, true
	case 1:
		t.ERising, t.EFalling = true, true
	}
	if r.Chance(1, 12) {
		t.ELevel = int32(r.Pick([]int{0, -50, 1, 131070, -2147483648, 2147483647}))
	}
	thr := base + r.Pick([]int{30, 60, 150, 400, -40})
	if r.Chance(1, 4) {
		t.LRising = false
	}
	if signed {
		t.LLevel = thr & 0xffff
	} else {
		if thr < 0 {
			thr = 0
		}
		if thr > 65535 {
			thr = 65535
		}
		t.LLevel = thr
	}
	k := r.Pick([]int{0, 1, nsamp - 1, nsamp, nsamp + 1, 2*nsamp + 3, 3 * nsamp, 5 * nsamp, 7*nsamp + 1, 100000})
	if r.Chance(1, 15) {
		k = -r.Range(1, 5)
	}
	t.DelayNs = delayFor(c, k)
	if r.Chance(1, 4) {
		t.Veto = r.Pick([]int{1, 5, 50, 75, 200, 600, 1500, 65535})
	}
	return t
}

func pickKinds(r *lib.Rng) string {
	return []string{"E", "E", "E", "L", "L", "A", "A", "EL", "EL", "EA", "LA", "ELA", "ELA", ""}[r.Intn(14)]
}

// control operations sprinkled between blocks
func controlOps(r *lib.Rng, c *Case, bases []int, nblocks int, heavy bool) map[int][]Op {
	out := map[int][]Op{}
	n := r.Pick([]int{0, 0, 1, 1, 2, 3})
	if heavy {
		n = r.Range(1, 4)
	}
	npre, nsamp := c.Npre, c.Nsamp
	for k := 0; k < n; k++ {
		at := r.Intn(nblocks + 1)
		if r.Chance(1, 4) {
			at = r.Intn(2) // right at the start or after the first block
		}
		if r.Chance(1, 6) { // a request that must be refused and change nothing
			out[at] = append(out[at], refusedRequest(r, c, nsamp-npre))
			continue
		}
		switch r.Intn(5) {
		case 0, 1, 2:
			var chans []int
			for i := range c.Chans {
				if r.Chance(2, 3) {
					chans = append(chans, i)
				}
			}
			if len(chans) == 0 {
				chans = []int{0}
			}
			t := RandTS(r, pickKinds(r), nsamp, c, bases[chans[0]], c.Chans[chans[0]].Signed)
			out[at] = append(out[at], Op{Op: "CT", Chans: chans, TS: &t})
		case 3:
			out[at] = append(out[at], Op{Op: "CL", Nsamp: nsamp, Npre: npre})
		default:
			p2, s2 := pickLengths(r)
			if r.Chance(1, 4) { // invalid request: must be refused and change nothing
				p2, s2 = r.Pick([]int{2, 0, 5, 9}), r.Pick([]int{5, 0, 9, 3})
			}
			out[at] = append(out[at], Op{Op: "CL", Nsamp: s2, Npre: p2})
			// later settings are drawn for the lengths at case start; good enough
		}
	}
	return out
}

func assemble(c *Case, raws [][]int, blocks []int, ctl map[int][]Op, r *lib.Rng) {
	per := make([][][]int, len(raws))
	for i := range raws {
		per[i] = cut(raws[i], blocks)
	}
	for k := range blocks {
		c.Ops = append(c.Ops, ctl[k]...)
		o := Op{Op: "B"}
		for i := range raws {
			o.D = append(o.D, per[i][k])
		}
		if r.Chance(1, 3) {
			o.Jit = int64(r.Range(-5000, 5000))
		}
		c.Ops = append(c.Ops, o)
	}
	c.Ops = append(c.Ops, ctl[len(blocks)]...)
	c.Lag = r.Pick([]int{0, 0, 1, 2, 2, 3})
}

// AddGaps makes the source lose frames before some blocks (C01 only: C02 speaks about contiguous sources): the
// block's first frame and time stamp jump by the gap and the block reports droppedFrames (Lancero style), or the
// block reports dropped frames that the source filled in, without any gap (Abaco style).
func AddGaps(r *lib.Rng, c *Case) {
	seen := 0
	for i := range c.Ops {
		if c.Ops[i].Op != "B" {
			continue
		}
		seen++
		if seen == 1 || !r.Chance(1, 3) {
			continue
		}
		g := int64(r.Pick([]int{1, 2, 3, 7, 37, c.Nsamp, 5000, 1 << 20}))
		switch r.Intn(5) {
		case 0:
			c.Ops[i].Drop = int(g) // filled in by the source: reported, no gap
		case 1:
			c.Ops[i].Gap = g // a gap the source did not report
		default:
			c.Ops[i].Gap, c.Ops[i].Drop = g, int(g)
		}
	}
	c.Note += "+gaps"
}

// GenRandom: DESIGN section 7 C01 — generic streams, boundary-hunting partitions, all trigger mixtures.
func GenRandom(r *lib.Rng, id int64, tier string) Case {
	npre, nsamp := pickLengths(r)
	c := Case{ID: id, Npre: npre, Nsamp: nsamp, F0: pickF0(r), T0: int64(1e9) + int64(r.Range(0, 1000000)), Note: "random"}
	setRate(r, &c)
	nchan := r.Pick([]int{1, 1, 1, 2})
	n := r.Range(nsamp+5, 14*nsamp)
	if tier == "thorough" {
		n = r.Range(nsamp+5, 40*nsamp)
	}
	blocks := pipe.Partition(r, n, npre, nsamp)
	raws := make([][]int, nchan)
	bases := make([]int, nchan)
	for i := 0; i < nchan; i++ {
		signed := r.Chance(1, 3)
		kind := r.Intn(pipe.NKinds)
		d, _ := pipe.GenStream(r, n, kind)
		raw := make([]int, n)
		for j, v := range d {
			raw[j] = int(v)
		}
		raws[i] = raw
		bases[i] = raw[0]
		if signed && bases[i] >= 32768 {
			bases[i] -= 65536
		}
		cc := ChanCfg{Signed: signed}
		if r.Chance(2, 3) {
			t := RandTS(r, pickKinds(r), nsamp, &c, bases[i], signed)
			if r.Chance(1, 10) {
				t.EMulti = true // must be forced off by PrepareRun
			}
			cc.Restored = &t
		}
		c.Chans = append(c.Chans, cc)
	}
	c.Stray = r.Chance(1, 5)
	assemble(&c, raws, blocks, controlOps(r, &c, bases, len(blocks), false), r)
	return c
}

// GenBoundary: DESIGN section 7 C02 — flat baselines with pulses / steps / slow level crossings placed at block
// boundaries +- {0..3, npre, nsamp-npre, nsamp}, pairs nsamp-1 / nsamp / nsamp+1 apart, level crossings inside and
// just outside the +-nsamp shadow of an edge trigger; fresh starts with restored settings and reconfigurations.
func GenBoundary(r *lib.Rng, id int64, tier string) Case {
	npre, nsamp := pickLengths(r)
	c := Case{ID: id, Npre: npre, Nsamp: nsamp, F0: pickF0(r), T0: int64(2e9), Note: "boundary"}
	setRate(r, &c)
	nchan := r.Pick([]int{1, 1, 2})
	// blocks: mostly a few records long, sometimes shorter than a record
	var blocks []int
	nb := r.Range(2, 6)
	for k := 0; k < nb; k++ {
		switch r.Intn(6) {
		case 0:
			blocks = append(blocks, r.Range(1, nsamp))
		case 1:
			blocks = append(blocks, r.Pick([]int{nsamp - 1, nsamp, nsamp + 1, 2*nsamp + 10, 2*nsamp + 11}))
		default:
			blocks = append(blocks, r.Range(2*nsamp, 5*nsamp))
		}
	}
	n := 0
	for _, b := range blocks {
		n += b
	}
	bnd := boundaries(blocks)
	offs := []int{0, 1, 2, 3, -1, -2, -3, npre, -npre, nsamp - npre, -(nsamp - npre), nsamp, -nsamp, npre + 1, nsamp - npre - 1, -npre - 1}
	raws := make([][]int, nchan)
	bases := make([]int, nchan)
	for i := 0; i < nchan; i++ {
		signed := r.Chance(1, 3)
		base := r.Pick([]int{1000, 5000, 30000, 32760, 60000})
		if signed {
			base = r.Pick([]int{-200, -20, 0, 40, 3000, -20000})
		}
		bases[i] = base
		x := make([]int, n)
		noise := r.Pick([]int{0, 0, 1, 2})
		for j := range x {
			x[j] = base + r.Range(-noise, noise)
		}
		amp := r.Pick([]int{150, 400, 1200, 3000})
		sign := 1
		kinds := pickKinds(r)
		if kinds == "" && r.Chance(2, 3) {
			kinds = "E"
		}
		t := RandTS(r, kinds, nsamp, &c, base, signed)
		if t.EFalling && !t.ERising {
			sign = -1
		}
		nev := r.Range(1, 4)
		for e := 0; e < nev; e++ {
			at := r.Intn(n)
			if len(bnd) > 0 && r.Chance(5, 6) {
				at = bnd[r.Intn(len(bnd))] + r.Pick(offs)
			}
			switch r.Intn(7) {
			case 0, 1, 2: // single pulse
				addPulse(x, at, sign*amp, r.Pick([]int{2, nsamp / 2, nsamp, 3 * nsamp}))
			case 3: // pair nsamp-1 / nsamp / nsamp+1 apart (and the +2, +3 neighbours)
				d := nsamp + r.Pick([]int{-1, 0, 1, 2, 3})
				addPulse(x, at, sign*amp, nsamp/3+1)
				addPulse(x, at+d, sign*amp, nsamp/3+1)
			case 4: // permanent step
				addStep(x, at, sign*amp/2)
			case 5: // slow crossing of the level threshold near an edge pulse: inside / just outside its shadow
				thr := t.LLevel
				if signed && thr >= 32768 {
					thr -= 65536
				}
				h := 2 * (thr - base)
				if h == 0 {
					h = 60
				}
				where := at + r.Pick([]int{-nsamp - 1, -nsamp, -nsamp + 1, -2, 2, nsamp - 1, nsamp, nsamp + 1, 2 * nsamp})
				addRamp(x, where-4, 8, h)
				addRamp(x, where+r.Range(4, 3*nsamp), 8, -h)
				if r.Bool() {
					addPulse(x, at, sign*amp, 3)
				}
			default: // quick double crossing of the level (level triggers have no dead time of their own)
				thr := t.LLevel
				if signed && thr >= 32768 {
					thr -= 65536
				}
				h := 2 * (thr - base)
				addPulse(x, at, h, 2)
				addPulse(x, at+r.Range(2, 5), h, 2)
			}
		}
		raws[i] = toRaw(x, signed)
		cc := ChanCfg{Signed: signed}
		if r.Chance(3, 4) {
			cc.Restored = &t
		}
		c.Chans = append(c.Chans, cc)
	}
	ctl := controlOps(r, &c, bases, len(blocks), false)
	// channels that start without settings get them through ChangeTriggerState early on
	for i := range c.Chans {
		if c.Chans[i].Restored == nil {
			t := RandTS(r, pickKinds(r), nsamp, &c, bases[i], c.Chans[i].Signed)
			at := r.Intn(2)
			ctl[at] = append(ctl[at], Op{Op: "CT", Chans: []int{i}, TS: &t})
		}
	}
	assemble(&c, raws, blocks, ctl, r)
	return c
}

// GenMalformed: requests the RPC layer refuses (invalid lengths) mixed with ordinary traffic, extreme levels,
// full-scale data: nothing may crash and refused requests must leave everything as it was.
func GenMalformed(r *lib.Rng, id int64, tier string) Case {
	c := GenRandom(r, id, tier)
	c.Note = "malformed"
	var ops []Op
	for _, o := range c.Ops {
		if r.Chance(1, 3) {
			ops = append(ops, Op{Op: "CL", Nsamp: r.Pick([]int{0, 1, 2, 3, 4, -5, 100}), Npre: r.Pick([]int{0, 1, 2, 3, 7, 100, -1})})
		}
		ops = append(ops, o)
	}
	c.Ops = ops
	return c
}

// ---------- corpus: hand-written boundary histories, incl. the witnesses of the two defects fixed in /repo ----------

func flat(n, v int) []int {
	x := make([]int, n)
	for i := range x {
		x[i] = v
	}
	return x
}

func blocksOf(data []int, sizes ...int) []Op {
	var ops []Op
	p := 0
	for _, n := range sizes {
		ops = append(ops, Op{Op: "B", D: [][]int{data[p : p+n]}})
		p += n
	}
	return ops
}

func Corpus() []Case {
	edge := TS{Edge: true, ERising: true, ELevel: 100, DelayNs: 250e6, LLevel: 4000}
	var out []Case
	// (a) fresh start with restored edge trigger: npre=10 nsamp=40, 100-sample blocks, step at frame 85
	x := flat(300, 1000)
	addStep(x, 85, 2000)
	out = append(out, Case{Npre: 10, Nsamp: 40, Rate: 10000, F0: 0, T0: 1e9, Chans: []ChanCfg{{Restored: &edge}},
		Ops: blocksOf(x, 100, 100, 100), Note: "defect-a: retained history too short after a fresh start"})
	// (b) ConfigureTrigger then a step at frame 20 of a stream starting at frame 0
	y := flat(200, 1000)
	addStep(y, 20, 2000)
	out = append(out, Case{Npre: 10, Nsamp: 40, Rate: 10000, F0: 0, T0: 1e9, Chans: []ChanCfg{{}},
		Ops: append([]Op{{Op: "CT", Chans: []int{0}, TS: &edge}}, blocksOf(y, 100, 100)...), Note: "defect-b: phantom trigger at frame 0"})
	// pulses exactly nsamp / nsamp+1 apart straddling a block boundary, signed channel through the wrap
	z := flat(400, -30)
	addPulse(z, 95, 900, 10)
	addPulse(z, 95+40, 900, 10)
	addPulse(z, 95+40+41, 900, 10)
	out = append(out, Case{Npre: 10, Nsamp: 40, Rate: 10000, F0: (1 << 31) - 100, T0: 1e9, Chans: []ChanCfg{{Signed: true, Restored: &edge}},
		Ops: blocksOf(toRaw(z, true), 100, 100, 100, 100), Note: "pairs across boundaries, signed"})
	// edge + level + auto, blocks shorter than a record
	ela := TS{Edge: true, ERising: true, ELevel: 100, Level: true, LRising: true, LLevel: 1100, Auto: true, DelayNs: delayNs(60, 10000)}
	w := flat(360, 1000)
	addPulse(w, 120, 800, 20)
	addRamp(w, 200, 10, 200)
	blocks := []int{7, 13, 40, 41, 39, 90, 5, 5, 120}
	out = append(out, Case{Npre: 10, Nsamp: 40, Rate: 10000, F0: 17, T0: 1e9, Chans: []ChanCfg{{Restored: &ela}},
		Ops: blocksOf(w, blocks...), Note: "edge+level+auto, short blocks"})
	// reconfigurations: lengths changed mid-stream, refused request, trigger settings replaced
	v := flat(500, 20000)
	addPulse(v, 98, 700, 15)
	addPulse(v, 250, 700, 15)
	addPulse(v, 405, 700, 15)
	ops := blocksOf(v, 100, 100, 100, 100, 100)
	lvl := TS{Level: true, LRising: true, LLevel: 20300, ELevel: 100, ERising: true, DelayNs: 250e6}
	ops = append(ops[:1], append([]Op{{Op: "CL", Nsamp: 60, Npre: 20}, {Op: "CL", Nsamp: 2, Npre: 2}}, ops[1:]...)...)
	ops = append(ops[:5], append([]Op{{Op: "CT", Chans: []int{0}, TS: &lvl}}, ops[5:]...)...)
	out = append(out, Case{Npre: 10, Nsamp: 40, Rate: 10000, F0: 1 << 40, T0: 1e9, Chans: []ChanCfg{{Restored: &edge}},
		Ops: ops, Note: "reconfigurations"})
	// auto only, delay shorter than a record, veto on
	au := TS{Auto: true, DelayNs: delayNs(5, 10000), Veto: 50, ELevel: 100, ERising: true, LLevel: 4000}
	u := flat(300, 5000)
	addPulse(u, 150, 500, 30)
	out = append(out, Case{Npre: 4, Nsamp: 16, Rate: 10000, F0: 0, T0: 1e9, Chans: []ChanCfg{{Restored: &au}},
		Ops: blocksOf(u, 50, 1, 2, 47, 100, 100), Note: "auto with veto"})
	// auto only at 300 kHz (frame period 3333 ns in the blocks, 3333.33.. in truth), delay 50 ms = 15000 samples,
	// successive auto triggers in different blocks
	a300 := TS{Auto: true, DelayNs: 50e6, ELevel: 100, ERising: true, LLevel: 4000}
	out = append(out, Case{Npre: 3, Nsamp: 6, Rate: 10000, FRate: 300000, F0: 0, T0: 1e9, Chans: []ChanCfg{{Restored: &a300}},
		Ops: blocksOf(flat(49000, 2000), 7000, 7000, 7000, 7000, 7000, 7000, 7000), Note: "auto across blocks at 300 kHz"})
	return out
}

// GenShadow: an edge trigger at E with level crossings placed exactly nsamp-2 .. nsamp+2 before and after it
// (the level pass must skip |k-E| < nsamp and nothing else), block boundaries near the three events.
func GenShadow(r *lib.Rng, id int64, tier string) Case {
	npre, nsamp := pickLengths(r)
	c := Case{ID: id, Npre: npre, Nsamp: nsamp, F0: pickF0(r), T0: int64(3e9), Note: "shadow"}
	setRate(r, &c)
	signed := r.Chance(1, 3)
	base := r.Pick([]int{1000, 20000, 32700, 60000})
	if signed {
		base = r.Pick([]int{-100, -20, 10, 5000, -30000})
	}
	h := 60
	rising := !r.Chance(1, 3)
	thr := base + 30
	if !rising {
		h = -60
		thr = base - 30
	}
	ts := TS{Edge: true, ERising: true, ELevel: int32(r.Pick([]int{250, 1000})), Level: true, LRising: rising,
		LLevel: thr & 0xffff, DelayNs: delayFor(&c, 100000)}
	if !signed {
		ts.LLevel = thr
	}
	if r.Chance(1, 4) {
		ts.Auto = true
		ts.DelayNs = delayFor(&c, r.Pick([]int{nsamp, 2*nsamp + 1, 5 * nsamp}))
	}
	n := 9 * nsamp
	x := flat(n, base)
	e := r.Range(3*nsamp, 5*nsamp)
	off1 := nsamp + r.Pick([]int{-2, -1, 0, 1, 2})
	off2 := nsamp + r.Pick([]int{-2, -1, 0, 1, 2})
	addStep(x, e-off1, h)
	addPulse(x, e, 3000, 3)
	addStep(x, e+5, -h)
	addStep(x, e+off2, h)
	// boundaries near the events
	cuts := map[int]bool{}
	offs := []int{0, 1, 2, 3, -1, -2, -3, npre, -npre, nsamp - npre, -(nsamp - npre), nsamp, -nsamp}
	for k := r.Range(1, 4); k > 0; k-- {
		at := []int{e - off1, e, e + off2}[r.Intn(3)] + r.Pick(offs)
		if r.Chance(1, 4) {
			at = r.Range(1, n-1)
		}
		if at > 0 && at < n {
			cuts[at] = true
		}
	}
	var blocks []int
	prev := 0
	for p := 1; p < n; p++ {
		if cuts[p] {
			blocks = append(blocks, p-prev)
			prev = p
		}
	}
	blocks = append(blocks, n-prev)
	cc := ChanCfg{Signed: signed}
	ctl := map[int][]Op{}
	if r.Chance(2, 3) {
		cc.Restored = &ts
	} else {
		ctl[0] = append(ctl[0], Op{Op: "CT", Chans: []int{0}, TS: &ts})
	}
	c.Chans = []ChanCfg{cc}
	assemble(&c, [][]int{toRaw(x, signed)}, blocks, ctl, r)
	return c
}

// GenGrow: a channel started with very short records is reconfigured to much longer ones (the retained history is
// sized by the old length at that moment), then pulses arrive at block boundaries placed relative to the new lengths.
func GenGrow(r *lib.Rng, id int64, tier string) Case {
	c := Case{ID: id, Npre: 3, Nsamp: r.Pick([]int{4, 5, 6}), F0: pickF0(r), T0: int64(4e9), Note: "grow"}
	setRate(r, &c)
	npre2 := r.Pick([]int{3, 5, 10, 16})
	nsamp2 := npre2 + r.Pick([]int{8, 14, 20, 30})
	signed := r.Chance(1, 4)
	base := 2000
	if signed {
		base = -50
	}
	ts := TS{Edge: true, ERising: true, ELevel: 100, LLevel: 4000, DelayNs: 250e6}
	if r.Chance(1, 3) {
		ts.Level, ts.LRising, ts.LLevel = true, true, (base+500)&0xffff
	}
	nb := r.Range(3, 5)
	var blocks []int
	n := 0
	for k := 0; k < nb; k++ {
		b := r.Range(nsamp2, 3*nsamp2)
		if k == 0 && r.Bool() {
			b = r.Range(1, 2*nsamp2)
		}
		blocks = append(blocks, b)
		n += b
	}
	bnd := boundaries(blocks)
	x := flat(n, base)
	offs := []int{0, 1, 2, 3, -1, -2, -3, npre2, -npre2, nsamp2 - npre2, -(nsamp2 - npre2), -(nsamp2 - npre2) - 1, -(nsamp2 - npre2) + 1, -nsamp2}
	for k := r.Range(1, 3); k > 0; k-- {
		at := bnd[r.Intn(len(bnd))] + r.Pick(offs)
		addPulse(x, at, 1500, r.Pick([]int{3, nsamp2 / 2, 2 * nsamp2}))
	}
	c.Chans = []ChanCfg{{Signed: signed, Restored: &ts}}
	ctl := map[int][]Op{}
	ctl[r.Intn(2)] = []Op{{Op: "CL", Nsamp: nsamp2, Npre: npre2}}
	assemble(&c, [][]int{toRaw(x, signed)}, blocks, ctl, r)
	return c
}

// GenDrift: auto triggers whose successive members fall in different blocks, at sample rates whose period is not a
// whole number of nanoseconds: the delay in samples is int(AutoDelay.Seconds()*SampleRate+0.5), NOT AutoDelay divided
// by the (rounded) frame period the blocks carry. Quiet data (sometimes with an enabled but silent edge trigger), no
// veto, short records, delays of 100..400 samples, blocks shorter than the delay.
func GenDrift(r *lib.Rng, id int64, tier string) Case {
	npre := r.Pick([]int{3, 3, 4})
	nsamp := npre + r.Pick([]int{1, 2, 3})
	c := Case{ID: id, Npre: npre, Nsamp: nsamp, Rate: 10000, FRate: pickFRate(r), F0: pickF0(r), T0: int64(5e9), Note: "drift"}
	if r.Chance(1, 6) {
		c.FRate = 0 // the same shape at an exact rate
	}
	d := r.Range(100, 400)
	ts := TS{Auto: true, DelayNs: delayFor(&c, d), ELevel: 100, ERising: true, LLevel: 4000}
	if r.Chance(1, 3) {
		ts.Edge = true
	}
	var blocks []int
	n := 0
	for n < 5*d {
		b := r.Range(d/4, d)
		if r.Chance(1, 5) {
			b = r.Range(1, nsamp+2)
		}
		blocks = append(blocks, b)
		n += b
	}
	signed := r.Chance(1, 4)
	x := flat(n, 3000)
	cc := ChanCfg{Signed: signed}
	ctl := map[int][]Op{}
	if r.Chance(2, 3) {
		cc.Restored = &ts
	} else {
		ctl[r.Intn(2)] = append(ctl[0], Op{Op: "CT", Chans: []int{0}, TS: &ts})
	}
	if r.Chance(1, 4) {
		ctl[r.Range(1, len(blocks)-1)] = append(ctl[0][:0:0], Op{Op: "CL", Nsamp: nsamp, Npre: npre})
	}
	c.Chans = []ChanCfg{cc}
	assemble(&c, [][]int{toRaw(x, signed)}, blocks, ctl, r)
	return c
}

// GenTailReconf: a criterion-satisfying sample in the last nsamp-npre samples of a block (not decidable yet when the
// block is processed), a control operation right after that block — ChangeTriggerState with the same or other
// settings, or ConfigurePulseLengths with the same / other / refused lengths — then enough data to decide it.
// Reconfiguring must not lose the pending sample.
func GenTailReconf(r *lib.Rng, id int64, tier string) Case {
	npre, nsamp := pickLengths(r)
	shrink := r.Chance(1, 3) // long records with a long post-trigger part, later shortened drastically
	if shrink {
		npre = r.Pick([]int{3, 4, 5})
		nsamp = r.Range(30, 48)
	}
	c := Case{ID: id, Npre: npre, Nsamp: nsamp, F0: pickF0(r), T0: int64(6e9), Note: "tail-reconf"}
	setRate(r, &c)
	signed := r.Chance(1, 3)
	base := r.Pick([]int{1500, 30000})
	if signed {
		base = r.Pick([]int{-60, 10, 4000})
	}
	ts := TS{Edge: true, ERising: true, ELevel: int32(r.Pick([]int{100, 400})), LLevel: 4000, DelayNs: delayFor(&c, 100000)}
	useLevel := r.Chance(1, 3)
	if useLevel {
		ts.Edge = false
		ts.Level, ts.LRising, ts.LLevel = true, true, (base+200)&0xffff
		if !signed {
			ts.LLevel = base + 200
		}
	} else if r.Chance(1, 4) {
		ts.Level, ts.LRising, ts.LLevel = true, true, (base+200)&0xffff
		if !signed {
			ts.LLevel = base + 200
		}
	}
	nb := r.Range(2, 4)
	var blocks []int
	n := 0
	for k := 0; k < nb; k++ {
		b := r.Range(nsamp+2, 4*nsamp)
		if k > 0 && r.Chance(1, 4) {
			b = r.Range(1, nsamp)
		}
		blocks = append(blocks, b)
		n += b
	}
	blocks = append(blocks, 3*nsamp+r.Range(0, nsamp)) // enough data afterwards
	n += blocks[len(blocks)-1]
	x := flat(n, base)
	which := r.Intn(nb) // the block whose tail holds the pulse
	end := 0
	for k := 0; k <= which; k++ {
		end += blocks[k]
	}
	tail := nsamp - npre
	at := end - 1 - r.Intn(tail)
	if r.Chance(1, 6) {
		at = end - tail - r.Range(1, 2) // just decidable: control case
	}
	if shrink {
		at = end - tail + r.Intn(4) // far from the block end: beyond what the short records' history would keep
	}
	if at < npre+3 {
		at = npre + 3
	}
	addPulse(x, at, 1500, r.Pick([]int{3, nsamp, 3 * nsamp}))
	cc := ChanCfg{Signed: signed, Restored: &ts}
	c.Chans = []ChanCfg{cc}
	ctl := map[int][]Op{}
	var op Op
	switch r.Intn(6) {
	case 0, 1:
		same := ts
		op = Op{Op: "CT", Chans: []int{0}, TS: &same}
	case 2:
		other := ts
		other.ELevel = 50
		other.Edge = true
		op = Op{Op: "CT", Chans: []int{0}, TS: &other}
	case 3:
		op = Op{Op: "CL", Nsamp: nsamp, Npre: npre}
	case 4:
		op = Op{Op: "CL", Nsamp: nsamp + r.Range(-1, 3), Npre: npre}
		if op.Nsamp < npre+1 {
			op.Nsamp = npre + 1
		}
	default:
		op = Op{Op: "CL", Nsamp: 2, Npre: 2} // refused
	}
	if shrink {
		op = Op{Op: "CL", Nsamp: 3 + r.Range(1, 5), Npre: 3}
	}
	ctl[which+1] = []Op{op}
	if r.Chance(1, 4) { // a second control operation on top
		same := ts
		ctl[which+1] = append(ctl[which+1], Op{Op: "CT", Chans: []int{0}, TS: &same})
	}
	assemble(&c, [][]int{toRaw(x, signed)}, blocks, ctl, r)
	return c
}

// CorpusC01: histories with frames lost between blocks and late reading of the published records (C01 only).
func CorpusC01() []Case {
	edge := TS{Edge: true, ERising: true, ELevel: 100, DelayNs: 250e6, LLevel: 4000}
	// 37 frames lost before the second block; one pulse pending in the tail of the first block, one 30 samples
	// into the second block
	x := flat(300, 1000)
	addPulse(x, 92, 2000, 20)
	addPulse(x, 130, 2000, 20)
	ops := blocksOf(x, 100, 100, 100)
	ops[1].Gap, ops[1].Drop = 37, 37
	auto := TS{Auto: true, DelayNs: delayNs(25, 10000), ELevel: 100, ERising: true, LLevel: 4000}
	y := make([]int, 400)
	for i := range y {
		y[i] = 1000 + (i*7)%500 // every record differs
	}
	return []Case{
		{Npre: 10, Nsamp: 40, Rate: 10000, F0: 1000, T0: 1e9, Chans: []ChanCfg{{Restored: &edge}}, Ops: ops, Note: "frames lost before a block"},
		{Npre: 4, Nsamp: 16, Rate: 10000, F0: 0, T0: 1e9, Lag: 3, Chans: []ChanCfg{{Restored: &auto}},
			Ops: blocksOf(y, 50, 50, 50, 50, 50, 50, 50, 50), Note: "records read three blocks after they were published"},
	}
}

// refusedRequest: a ChangeTriggerState request that switches edge-multi on with parameters the record lengths cannot
// support (nmonotone > nsamp-npre for post = the LARGEST nsamp-npre in force during the case, or far beyond any
// length), addressed to all or some channels. It must be refused and leave every channel exactly as it was.
func refusedRequest(r *lib.Rng, c *Case, post int) Op {
	t := TS{Edge: true, ERising: true, ELevel: int32(r.Pick([]int{1, 50, 100})), LLevel: 4000, DelayNs: delayFor(c, 7),
		EMulti: true, EMZeroOff: r.Bool(), EMNMono: r.Pick([]int{60, 61, 500, 1 << 30, (1 << 31) - 1})}
	if r.Chance(1, 4) {
		t.Auto, t.Level = true, true
	}
	var chans []int
	for i := range c.Chans {
		if r.Chance(2, 3) {
			chans = append(chans, i)
		}
	}
	if len(chans) == 0 {
		chans = []int{0}
	}
	return Op{Op: "CT", Chans: chans, TS: &t}
}

// GenRefused: triggering is running; a pulse is recorded in the part of a block that the stream retains
// (the last 2*nsamp+10 samples); then, before the next block, requests that are refused (ChangeTriggerState
// switching edge-multi on with unsupportable parameters, ConfigurePulseLengths with invalid lengths) or accepted
// without changing anything (ConfigurePulseLengths with the lengths in force); then more data. Nothing may change:
// in particular the recorded pulse must not be recorded a second time.
func GenRefused(r *lib.Rng, id int64, tier string) Case {
	npre, nsamp := pickLengths(r)
	c := Case{ID: id, Npre: npre, Nsamp: nsamp, F0: pickF0(r), T0: int64(7e9), Note: "refused-requests"}
	setRate(r, &c)
	nchan := r.Pick([]int{1, 1, 2})
	nb := r.Range(2, 4)
	var blocks []int
	n := 0
	for k := 0; k < nb; k++ {
		b := r.Range(3*nsamp+12, 6*nsamp)
		blocks = append(blocks, b)
		n += b
	}
	bnd := boundaries(blocks)
	raws := make([][]int, nchan)
	for i := 0; i < nchan; i++ {
		signed := r.Chance(1, 3)
		base := r.Pick([]int{1200, 40000})
		if signed {
			base = r.Pick([]int{-80, 25, 6000})
		}
		ts := TS{Edge: true, ERising: true, ELevel: 100, LLevel: 4000, DelayNs: delayFor(&c, 100000)}
		switch r.Intn(6) {
		case 0:
			ts.Auto, ts.DelayNs = true, delayFor(&c, r.Pick([]int{nsamp, 3 * nsamp}))
		case 1:
			ts.Level, ts.LRising, ts.LLevel = true, true, (base+300)&0xffff
			if !signed {
				ts.LLevel = base + 300
			}
		}
		x := flat(n, base)
		for _, bd := range bnd {
			if r.Chance(4, 5) {
				// recorded while the block before the boundary is processed, and still in the retained history
				back := (nsamp - npre) + 1 + r.Intn(nsamp+npre+8)
				addPulse(x, bd-back, 1500, r.Pick([]int{3, nsamp / 2, nsamp}))
			}
		}
		raws[i] = toRaw(x, signed)
		t := ts
		c.Chans = append(c.Chans, ChanCfg{Signed: signed, Restored: &t})
	}
	ctl := map[int][]Op{}
	for k := 1; k < nb; k++ {
		if !r.Chance(5, 6) {
			continue
		}
		for m := r.Range(1, 2); m > 0; m-- {
			switch r.Intn(5) {
			case 0, 1, 2:
				ctl[k] = append(ctl[k], refusedRequest(r, &c, nsamp-npre))
			case 3:
				ctl[k] = append(ctl[k], Op{Op: "CL", Nsamp: nsamp, Npre: npre})
			default:
				ctl[k] = append(ctl[k], Op{Op: "CL", Nsamp: r.Pick([]int{2, 0, 3}), Npre: r.Pick([]int{2, 5, 3})})
			}
		}
	}
	assemble(&c, raws, blocks, ctl, r)
	return c
}
