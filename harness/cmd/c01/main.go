// C01 harness: every record published by the edge / level / auto passes, over generated streams, partitions and
// control histories, driven through the real ProcessSegments (verif bench). Shares case format and runner with C02.
package main

import (
	"encoding/json"

	"verifharness/cmd/c01/trig"
	"verifharness/lib"
)

func gen(seed uint64, tier string) []interface{} {
	r := lib.NewRng(seed)
	n := 300
	if tier == "thorough" {
		n = 6000
	}
	var out []interface{}
	id := int64(1)
	for _, c := range append(trig.Corpus(), trig.CorpusC01()...) {
		c.ID = id
		id++
		out = append(out, c)
	}
	for i := 0; i < n; i++ {
		var c trig.Case
		switch q := r.Intn(20); {
		case q < 11:
			c = trig.GenRandom(r.Fork(), id, tier)
		case q < 16:
			c = trig.GenBoundary(r.Fork(), id, tier)
		case q < 17:
			c = trig.GenShadow(r.Fork(), id, tier)
		case q < 18:
			switch r.Intn(4) {
			case 3:
				c = trig.GenRefused(r.Fork(), id, tier)
			case 0:
				c = trig.GenGrow(r.Fork(), id, tier)
			case 1:
				c = trig.GenDrift(r.Fork(), id, tier)
			default:
				c = trig.GenTailReconf(r.Fork(), id, tier)
			}
		default:
			c = trig.GenMalformed(r.Fork(), id, tier)
		}
		if r.Chance(1, 3) {
			trig.AddGaps(r.Fork(), &c)
		}
		id++
		out = append(out, c)
	}
	return out
}

func main() {
	h := lib.Harness{
		Gen: gen,
		RunCase: func(raw json.RawMessage) (lib.Result, error) {
			var c trig.Case
			if err := json.Unmarshal(raw, &c); err != nil {
				return lib.Result{}, err
			}
			return trig.Run(c), nil
		},
		Crash:    trig.Crash,
		Header:   "From Dastard Require Import Common.ZX Common.CaseLib Pipeline.Stream C01.Model C01.Run.",
		Verdict:  "verdict",
		PerShard: 30,
		Isolate:  true,
		Chunk:    20,
	}
	h.Main()
}
