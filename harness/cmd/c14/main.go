// C14 harness: feeds records to the real ZMQ message builders (messageRecords / messageSummaries, reached
// through dastard.VerifMessageRecord / VerifMessageSummary) and renders record + returned frames as a Coq term.
//
// Floats travel as bit patterns.  A case stores the float64 bits of the five analysis values and of every
// coefficient, and the float32 bits of sample period and volts-per-arb.  The implementation converts the
// analysis values with float32(x); the harness computes math.Float32bits(float32(x)) itself (the same Go
// conversion, see the trusted base) and gives that integer to the Coq side.
package main

import (
	"encoding/json"
	"fmt"
	"math"
	"os"
	"sort"
	"strings"
	"time"
	"unsafe"

	zmq4 "github.com/pebbe/zmq4"
	"github.com/usnistgov/dastard"
	"verifharness/lib"
)

// Case is one record (the name is kept from the first version of this harness: one case = one record).
type Case struct {
	ID     int64    `json:"id,omitempty"`
	Chan   int64    `json:"chan"`
	Signed bool     `json:"signed"`
	Pre    int64    `json:"pre"`
	Data   []int    `json:"data"`           // samples (used when Ramp is nil)
	Ramp   []int64  `json:"ramp,omitempty"` // [a, b, n]: sample i = (a + b*i) mod 65536, n samples
	Period uint32   `json:"period"`         // float32 bits
	Vpa    uint32   `json:"vpa"`            // float32 bits
	Time   int64    `json:"time"`
	Frame  int64    `json:"frame"`
	Vals   []uint64 `json:"vals"`  // float64 bits of pretrigMean, peakValue, pulseRMS, pulseAverage, residualStdDev
	Coefs  []uint64 `json:"coefs"` // float64 bits
	E2E    bool     `json:"e2e,omitempty"`
}

// Batch is what one generated case is: a few records whose messages are ALL built before any of them is
// read.  In production a built message is held (startSocket: message := converter(record) ... SendMessage)
// while the other port's goroutine runs its converter; a message that shares memory with a later one shows
// only when it is read after the later one has been built.
//   Order 0: rec(A) sum(A) rec(B) sum(B) ...   1: rec(A) rec(B) ... sum(A) sum(B) ...   2: sum(A) rec(A) sum(B) rec(B) ...
type Batch struct {
	ID     int64  `json:"id"`
	Order  int    `json:"order"`
	IdleMs int    `json:"idle_ms,omitempty"` // after the last record keep listening this long: nothing else may arrive
	Stress int    `json:"stress,omitempty"`  // two goroutines build the messages of the first two records this many times concurrently
	Pub    *PubSpec `json:"publish,omitempty"` // the batch goes through the real DataPublisher.PublishData
	Ops    []Case `json:"ops"`
}

// PubSpec: the records of the batch (one channel's records) are handed to DataPublisher.PublishData with these file
// writers active; the messages are encoded only AFTER PublishData has returned (PublishData only queues the batch
// for the publisher goroutines, which may get to it after the writers have run).
type PubSpec struct {
	Writers int  `json:"writers"` // bit 0: LJH 2.2, bit 1: LJH 3, bit 2: OFF
	Paused  bool `json:"paused,omitempty"`
}

// ---------- value pools ----------

var chanPool = []int64{0, 1, 2, 254, 255, 256, 257, 511, 512, 4660, 32767, 32768, 65534, 65535}
var chanBad = []int64{65536, 65537, -1, -256, 65536 + 258, 1 << 20, 1<<32 + 7, -65536}

var i64Pool = []int64{0, 1, -1, 2, 255, 256, 65535, 65536, 1<<31 - 1, 1 << 31, 1<<31 + 1, -(1 << 31), -(1 << 31) - 1,
	1<<32 - 1, 1 << 32, 1<<32 + 1, 1 << 40, 1<<53 + 1, 1 << 62, 1<<62 + 1, -(1 << 62), math.MaxInt64, math.MaxInt64 - 1,
	math.MinInt64, math.MinInt64 + 1, 1500000000123456789, 0x0102030405060708, -0x0102030405060708}

var prePool = []int64{0, 1, 2, 255, 256, 257, 65535, 65536, 65537, 1 << 24, 1<<31 - 1, 1 << 31, 1<<32 - 1, 0x01020304}
var preBad = []int64{1 << 32, 1<<32 + 5, -1, -2, math.MinInt64, 1 << 40}

var f64Pool = []uint64{
	0, 0x8000000000000000, // +-0
	0x3ff0000000000000, 0xbff0000000000000, // +-1
	0x7ff0000000000000, 0xfff0000000000000, // +-Inf
	0x7ff8000000000000, 0xfff8000000000000, // quiet NaN +-
	0x7ff8000000000001, 0x7ffc0000deadbeef, // quiet NaN with payload
	0x7ff0000000000001, 0x7ff4000000000000, 0xfff0000012345678, // signalling NaNs
	0x0000000000000001, 0x000fffffffffffff, 0x8000000000000001, // float64 denormals
	0x0010000000000000,                                         // smallest normal float64
	0x36a0000000000000, 0x369fffffffffffff, 0x36a0000000000001, // around the smallest float32 denormal (2^-149)
	0x3800000000000000, 0x380fffffffffffff, 0x37f0000000000000, // around the smallest normal float32 (2^-126)
	0x47efffffe0000000, 0x47efffffefffffff, 0x47effffff0000000, 0x47f0000000000000, // around max float32 / overflow
	0x7fefffffffffffff, 0xffefffffffffffff, // +-max float64
	0x400921fb54442d18, 0x40c3880000000000, 0x3ff0000010000000, 0x3ff0000010000001, // pi, 10000, round-to-even ties
	0x0102030405060708, 0xf1f2f3f4f5f6f7f8,
}

var f32Pool = []uint32{
	0, 0x80000000, 0x3f800000, 0xbf800000, 0x7f800000, 0xff800000, // 0, 1, Inf
	0x7fc00000, 0xffc00000, 0x7fc00001, 0x7fa00000, 0x7f800001, 0xffa12345, // NaNs, quiet and signalling
	0x00000001, 0x007fffff, 0x80000001, 0x00800000, 0x7f7fffff, // denormals, smallest normal, max
	0x358637bd, 0x3a83126f, 0x01020304, 0xf1f2f3f4, // 1e-6, 1e-3, byte-order probes
}

func pickI64(r *lib.Rng, pool []int64) int64   { return pool[r.Intn(len(pool))] }
func pickU64(r *lib.Rng, pool []uint64) uint64 { return pool[r.Intn(len(pool))] }
func pickU32(r *lib.Rng, pool []uint32) uint32 { return pool[r.Intn(len(pool))] }

func genF64(r *lib.Rng) uint64 {
	switch r.Intn(4) {
	case 0:
		return pickU64(r, f64Pool)
	case 1:
		return r.U64() // uniform bit pattern (about 1 in 2000 is a NaN/Inf)
	case 2:
		// a float64 whose magnitude is in float32 range, full mantissa (exercises rounding)
		exp := uint64(1023 - 130 + r.Intn(260))
		return (r.U64() & 0x800fffffffffffff) | exp<<52
	default:
		return math.Float64bits(float64(r.Range(-40000, 70000)) + float64(r.Intn(1000))/1000)
	}
}

func genF32(r *lib.Rng) uint32 {
	if r.Chance(1, 3) {
		return pickU32(r, f32Pool)
	}
	return uint32(r.U64())
}

func genI64(r *lib.Rng) int64 {
	switch r.Intn(3) {
	case 0:
		return pickI64(r, i64Pool)
	case 1:
		return int64(r.U64())
	default:
		return int64(r.U64() >> uint(r.Intn(64)))
	}
}

func genData(r *lib.Rng, n int) []int {
	d := make([]int, n)
	pts := []int{0, 1, 2, 255, 256, 257, 32767, 32768, 32769, 65279, 65280, 65534, 65535, 0x0102, 0xf1f2}
	mode := r.Intn(3)
	v := r.Range(0, 65535)
	for i := range d {
		switch mode {
		case 0:
			d[i] = r.Pick(pts)
		case 1:
			d[i] = r.Range(0, 65535)
		default:
			v = (v + r.Range(-300, 300)) & 0xffff
			d[i] = v
		}
	}
	return d
}

func genCase(r *lib.Rng, tier string) Case {
	var c Case
	c.Chan = pickI64(r, chanPool)
	if r.Chance(1, 2) {
		c.Chan = int64(r.Range(0, 65535))
	}
	c.Signed = r.Bool()
	var n int
	switch r.Intn(8) {
	case 0:
		n = r.Range(0, 3)
	case 1:
		n = r.Pick([]int{7, 8, 9, 255, 256, 257})
	case 2:
		n = r.Range(100, 600)
	default:
		n = r.Range(0, 48)
	}
	c.Data = genData(r, n)
	switch r.Intn(4) {
	case 0:
		c.Pre = pickI64(r, prePool)
	case 1:
		c.Pre = int64(r.U64() >> 32)
	default:
		c.Pre = int64(r.Range(0, n)) // the realistic case: 0 <= presamples <= samples
	}
	c.Period = genF32(r)
	c.Vpa = genF32(r)
	c.Time = genI64(r)
	c.Frame = genI64(r)
	for i := 0; i < 5; i++ {
		c.Vals = append(c.Vals, genF64(r))
	}
	var nc int
	switch r.Intn(6) {
	case 0:
		nc = 0
	case 1:
		nc = r.Pick([]int{1, 2, 63, 64})
	default:
		nc = r.Range(0, 12)
	}
	c.Coefs = make([]uint64, nc)
	for i := range c.Coefs {
		c.Coefs[i] = genF64(r)
	}
	// malformed stream: a channel or presample count that does not fit its header field (outside the property)
	if r.Chance(1, 12) {
		if r.Bool() {
			c.Chan = pickI64(r, chanBad)
		} else {
			c.Pre = pickI64(r, preBad)
		}
	}
	return c
}

func corpus(tier string) []Case {
	var out []Case
	vals := func(a, b, c, d, e uint64) []uint64 { return []uint64{a, b, c, d, e} }
	one := math.Float64bits
	base := Case{Chan: 3, Pre: 2, Data: []int{1, 2, 3, 65535}, Period: math.Float32bits(1e-6), Vpa: math.Float32bits(1.0 / 16384),
		Time: 1500000000123456789, Frame: 123456789012,
		Vals: vals(one(1000.5), one(2000.25), one(300.125), one(150.0625), one(7.5)), Coefs: []uint64{one(1), one(-2), one(0.5)}}
	// the channels named in the assignment, both sample types, a few lengths
	for i, ch := range []int64{0, 1, 255, 256, 65535} {
		for j, n := range []int{0, 1, 2, 3, 257} {
			c := base
			c.Chan = ch
			c.Signed = (i+j)%2 == 0
			c.Data = make([]int, n)
			for k := range c.Data {
				c.Data[k] = (0x0102 + 0x0101*k) & 0xffff
			}
			c.Pre = int64(n / 2)
			out = append(out, c)
		}
	}
	// extreme frames and times, each value in both fields (distinct partner so that a swap shows)
	for _, v := range i64Pool {
		c := base
		c.Time, c.Frame = v, 0x1122334455667788
		out = append(out, c)
		c.Time, c.Frame = 0x1122334455667788, v
		out = append(out, c)
	}
	// every special float in every float field
	for i, v := range f64Pool {
		c := base
		c.Vals = vals(one(1), one(2), one(3), one(4), one(5))
		c.Vals[i%5] = v
		c.Coefs = []uint64{v, one(1), v}
		out = append(out, c)
	}
	for i, v := range f32Pool {
		c := base
		if i%2 == 0 {
			c.Period = v
		} else {
			c.Vpa = v
		}
		out = append(out, c)
	}
	// presample counts across the 16/32-bit boundaries; 0..64 coefficients
	for _, p := range prePool {
		c := base
		c.Pre = p
		out = append(out, c)
	}
	for _, nc := range []int{0, 1, 2, 3, 7, 8, 9, 31, 32, 33, 63, 64} {
		c := base
		c.Coefs = make([]uint64, nc)
		for k := range c.Coefs {
			c.Coefs[k] = one(float64(k) - 3.25)
		}
		out = append(out, c)
	}
	// a few long records (the 32-bit sample count above 2^16); data by formula to keep the shard small
	longs := []int64{4096, 65537}
	if tier == "thorough" {
		longs = []int64{4096, 65535, 65536, 65537, 70000, 131073}
	}
	for i, n := range longs {
		c := base
		c.Data = nil
		step := int64(257)
		if tier != "thorough" && n > 60000 {
			step = 256 // quick tier: a payload of period 512 bytes, which frameList writes down compactly
		}
		c.Ramp = []int64{int64(1000 * i), step, n}
		c.Pre = n / 4
		c.Signed = i%2 == 1
		out = append(out, c)
	}
	// outside the domain of the property: compared with the mirror only
	for _, ch := range chanBad {
		c := base
		c.Chan = ch
		out = append(out, c)
	}
	for _, p := range preBad {
		c := base
		c.Pre = p
		out = append(out, c)
	}
	return out
}

// e2eSlice: 18 records sent through startSocket's publishers in every tier: channels with and without a prefix
// subscription x (0 samples, 0 coefficients) / (0 samples, 2 coefficients) / (3 samples, 0 coefficients) /
// (2 samples, 3 coefficients).
func e2eSlice() []Case {
	one := math.Float64bits
	var out []Case
	k := 0
	for _, ch := range []int64{0, 1, 255, 256, 65535, 3} {
		for j := 0; j < 3; j++ {
			c := Case{Chan: ch, Signed: k%2 == 0, Period: math.Float32bits(1e-6), Vpa: math.Float32bits(1.0 / 16384),
				Time: 1500000000123456789 + int64(k), Frame: 1<<33 + int64(k), E2E: true,
				Vals: []uint64{one(1000.5), one(2000.25), one(300.125), one(150.0625), one(7.5)}}
			switch k % 4 {
			case 0: // both second frames empty
			case 1:
				c.Coefs = []uint64{one(1.5), one(-2)}
			case 2:
				c.Data = []int{1, 0xfffe, 0x0102}
			default:
				c.Data = []int{7, 0x8000}
				c.Coefs = []uint64{one(0.25), one(3), one(-1e300)}
			}
			c.Pre = int64(len(c.Data) / 2)
			if c.Data == nil {
				c.Data = []int{}
			}
			if c.Coefs == nil {
				c.Coefs = []uint64{}
			}
			out = append(out, c)
			k++
		}
	}
	return out
}

// genPubBatch: 1..4 records of ONE channel (same channel, signedness, presample count, length and number of
// coefficients, as one DataStreamProcessor produces them) for DataPublisher.PublishData.  The first dozen walk
// through every writer combination for a signed and an unsigned channel; samples cluster around the values where
// signed and unsigned readings differ (0, -1, -2 = 65534, 32767/32768).
func genPubBatch(r *lib.Rng, k int) Batch {
	masks := []int{1, 2, 3, 4, 7, 0}
	spec := &PubSpec{Writers: masks[k%len(masks)]}
	signed := (k/len(masks))%2 == 0
	if k >= 2*len(masks) {
		spec.Writers = r.Intn(8)
		signed = r.Chance(2, 3)
		spec.Paused = r.Chance(1, 8)
	}
	n := r.Pick([]int{1, 2, 5, 16, 40})
	if r.Chance(1, 10) {
		n = 0
	}
	nc := r.Range(0, 4)
	if spec.Writers&4 != 0 && nc == 0 {
		nc = 2
	}
	ch := pickI64(r, chanPool)
	pre := int64(n / 3)
	nrec := r.Range(1, 4)
	e2e := k%10 == 3 // every tenth: the queued batch is handed on to the real PUB sockets after PublishData returned
	if e2e && r.Bool() {
		ch = subChans[r.Intn(len(subChans))]
	}
	period, vpa := genF32(r), genF32(r)
	b := Batch{Pub: spec}
	pts := []int{0, 1, 2, 65535, 65534, 65533, 32767, 32768, 32769, 100, 65436, 0x0102}
	for i := 0; i < nrec; i++ {
		c := Case{Chan: ch, Signed: signed, Pre: pre, Period: period, Vpa: vpa, Time: genI64(r), Frame: genI64(r), E2E: e2e}
		c.Data = make([]int, n)
		for j := range c.Data {
			if r.Chance(2, 3) {
				c.Data[j] = r.Pick(pts)
			} else {
				c.Data[j] = r.Range(0, 65535)
			}
		}
		for j := 0; j < 5; j++ {
			c.Vals = append(c.Vals, genF64(r))
		}
		c.Coefs = make([]uint64, nc)
		for j := range c.Coefs {
			c.Coefs[j] = genF64(r)
		}
		b.Ops = append(b.Ops, c)
	}
	return b
}

func gen(seed uint64, tier string) []interface{} {
	r := lib.NewRng(seed)
	n := 260
	if tier == "thorough" {
		n = 6000
	}
	var recs []Case
	recs = append(recs, corpus(tier)...)
	for i := 0; i < n; i++ {
		rr := r.Fork()
		c := genCase(rr, tier)
		if tier == "thorough" && i%10 == 0 && c.Chan >= 0 && c.Chan < 65536 {
			c.E2E = true // through the real PUB socket; every other one on a channel with a prefix subscription
			if i%20 == 0 {
				c.Chan = subChans[rr.Intn(len(subChans))]
			}
		}
		recs = append(recs, c)
	}
	if tier == "thorough" {
		// the channel/length grid and the long records of the corpus once more, end to end
		for _, c := range corpus(tier) {
			if c.Chan == 3 && len(c.Ramp) == 0 {
				continue
			}
			if c.Chan < 0 || c.Chan >= 65536 {
				continue
			}
			c.E2E = true
			recs = append(recs, c)
		}
	}
	// both tiers: a small slice through the real PUB/SUB pair - what is ON THE WIRE must be a two-frame message
	// also when the second frame is empty (record with 0 samples, summary with 0 coefficients)
	recs = append(recs, e2eSlice()...)
	// group consecutive records into batches of 2..4 (now and then 1); a long record is always followed by
	// at least one more record in its batch
	var batches []Batch
	id := int64(1)
	br := lib.NewRng(seed ^ 0xb47c)
	for i := 0; i < len(recs); {
		k := br.Range(2, 4)
		if br.Chance(1, 15) && len(recs[i].Ramp) == 0 {
			k = 1
		}
		if i+k > len(recs) {
			k = len(recs) - i
		}
		b := Batch{ID: id, Order: br.Intn(3), Ops: append([]Case(nil), recs[i:i+k]...)}
		id++
		i += k
		batches = append(batches, b)
	}
	// idle watch: after the last record of one all-end-to-end batch (thorough: three) the SUB sockets stay open
	// for 3.5 s; nothing but messages of published records may ever arrive on the port
	want := 1
	if tier == "thorough" {
		want = 3
	}
	for i := len(batches) - 1; i >= 0 && want > 0; i-- {
		all := len(batches[i].Ops) >= 2
		for _, c := range batches[i].Ops {
			all = all && c.E2E
		}
		if all {
			batches[i].IdleMs = 3500
			want--
			i -= 4
		}
	}
	// concurrent-encode stress in one batch (thorough: five): the two publisher goroutines encode at the same time
	// in production, so a message must also be right when it is built while the other encoder runs
	want = 1
	if tier == "thorough" {
		want = 5
	}
	for i := 0; i < len(batches) && want > 0; i += 7 {
		if len(batches[i].Ops) >= 2 && len(batches[i].Ops[0].Ramp) == 0 && len(batches[i].Ops[1].Ramp) == 0 {
			batches[i].Stress = 20000
			want--
		}
	}
	// batches through the real DataPublisher.PublishData with file writers active: what is published must still
	// be the record's samples when the publisher goroutine gets to the queued batch after the writers have run
	np := 30
	if tier == "thorough" {
		np = 400
	}
	pr := lib.NewRng(seed ^ 0x9b11)
	for k := 0; k < np; k++ {
		pb := genPubBatch(pr.Fork(), k)
		pb.ID = id
		id++
		batches = append(batches, pb)
	}
	var out []interface{}
	for _, b := range batches {
		out = append(out, b)
	}
	return out
}

// ---------- end-to-end path (thorough tier): the real startSocket publisher and SUB sockets ----------
//
// One session per harness process: two publishers started through startSocket (messageRecords and
// messageSummaries, as configurePubRecordsSocket / configurePubSummariesSocket do) on two free TCP ports, and
// for each an unfiltered SUB socket and a SUB socket subscribed to the 2-byte prefixes of subChans only.
// Determinism: PUB/SUB drops messages until the subscription has reached the publisher, so numbered probe
// records are sent until every SUB socket has seen one, then every socket is drained up to the last probe;
// from then on the harness works in lock step (send one record, receive it on every socket that must see it),
// far below the high-water marks, over one ordered TCP connection per socket.  Anything that goes wrong with
// the transport (no free port, priming or a receive timing out) makes the case fall back to the direct call
// and is visible as a tag; it is never reported as a violation of the layout property.

var subChans = []int64{0, 1, 255, 256, 4660, 65535}

type session struct {
	pub  [2]*dastard.VerifPub // 0: records, 1: summaries
	all  [2]*zmq4.Socket
	filt [2]*zmq4.Socket
	ok   bool
}

var sess *session
var sessTried bool

func prefixOf(ch int64) string { return string([]byte{byte(ch & 0xff), byte(ch >> 8)}) }

func newSub(port int, prefixes []string) (*zmq4.Socket, error) {
	sock, err := zmq4.NewSocket(zmq4.SUB)
	if err != nil {
		return nil, err
	}
	sock.SetLinger(0)
	sock.SetRcvhwm(100000)
	sock.SetRcvtimeo(20 * time.Millisecond)
	for _, p := range prefixes {
		if err := sock.SetSubscribe(p); err != nil {
			return nil, err
		}
	}
	if err := sock.Connect(fmt.Sprintf("tcp://127.0.0.1:%d", port)); err != nil {
		return nil, err
	}
	return sock, nil
}

func equalFrames(a, b [][]byte) bool {
	if len(a) != len(b) {
		return false
	}
	for i := range a {
		if string(a[i]) != string(b[i]) {
			return false
		}
	}
	return true
}

func probe(k int) dastard.VerifRecord {
	return dastard.VerifRecord{Chan: 4660, Frame: int64(-1000 - k), TimeNs: 77, Pre: 0, Data: []uint16{uint16(k)},
		ModelCoefs: []float64{float64(k) + 0.5}}
}

// isProbe recognises a received probe by its header frame OR by its last frame (both carry the probe number), so
// that the handshake still synchronises when what arrives differs from what the encoder returned in the other
// respect (a frame dropped or altered on the way is then judged on the test records, not hidden by a fall-back).
func isProbe(m, want [][]byte) bool {
	if len(m) == 0 || len(want) != 2 {
		return false
	}
	return string(m[0]) == string(want[0]) || (len(m[len(m)-1]) > 0 && string(m[len(m)-1]) == string(want[1]))
}

func direct(v dastard.VerifRecord, which int) [][]byte {
	if which == 0 {
		return copyFrames(dastard.VerifMessageRecord(v))
	}
	return copyFrames(dastard.VerifMessageSummary(v))
}

func dbg(format string, a ...interface{}) {
	if os.Getenv("VERIF_C14_DEBUG") != "" {
		fmt.Fprintf(os.Stderr, "c14 e2e: "+format+"\n", a...)
	}
}

func getSession() *session {
	if sessTried {
		return sess
	}
	sessTried = true
	s := &session{}
	port := 21000 + (os.Getpid()*13)%20000
	var prefixes []string
	for _, ch := range subChans {
		prefixes = append(prefixes, prefixOf(ch))
	}
	for w := 0; w < 2; w++ {
		var err error
		for tries := 0; tries < 60; tries++ {
			port++
			s.pub[w], err = dastard.VerifStartPub(port, w == 1)
			if err == nil {
				break
			}
		}
		if err != nil {
			dbg("no port: %v", err)
			return nil
		}
		if s.all[w], err = newSub(port, []string{""}); err != nil {
			dbg("sub: %v", err)
			return nil
		}
		if s.filt[w], err = newSub(port, prefixes); err != nil {
			dbg("sub: %v", err)
			return nil
		}
		dbg("publisher %d on port %d", w, port)
	}
	// priming: numbered probes until every socket has seen one
	socks := []*zmq4.Socket{s.all[0], s.filt[0], s.all[1], s.filt[1]}
	which := []int{0, 0, 1, 1}
	seen := make([]bool, 4)
	last := -1
	for k := 0; k < 400; k++ {
		s.pub[0].Send(probe(k))
		s.pub[1].Send(probe(k))
		last = k
		allSeen := true
		for i, so := range socks {
			if !seen[i] {
				if m, err := so.RecvMessageBytes(0); err == nil && len(m) > 0 {
					seen[i] = true
				}
			}
			allSeen = allSeen && seen[i]
		}
		if allSeen {
			break
		}
	}
	dbg("priming: %d probes, seen %v", last+1, seen)
	for i := range seen {
		if !seen[i] {
			return nil
		}
	}
	// one more probe as a fence (every socket is subscribed now), then drain every socket up to it
	last++
	s.pub[0].Send(probe(last))
	s.pub[1].Send(probe(last))
	for i, so := range socks {
		want := direct(probe(last), which[i])
		so.SetRcvtimeo(recvTimeout)
		for n := 0; ; n++ {
			m, err := so.RecvMessageBytes(0)
			if err != nil || n > 1000 {
				dbg("drain of socket %d failed after %d messages: %v", i, n, err)
				return nil
			}
			if isProbe(m, want) {
				break
			}
		}
	}
	s.ok = true
	sess = s
	return s
}

const recvTimeout = 8 * time.Second

func subscribed(ch int) bool {
	for _, c := range subChans {
		if int64(ch) == c {
			return true
		}
	}
	return false
}

// roundtripBatch hands ALL the records to each publisher goroutine in ONE channel send (what PublishData does:
// dp.PubRecordsChan <- records) and then reads, for every record in order, exactly one message from the
// unfiltered SUB socket and - for a record on one of subChans - one from the prefix-subscribed SUB socket.
// What a record is judged on is the message as received (any number of frames).  When the two sockets disagree
// about a record's message, both are reported together (more than two frames: rejected).  A message that does
// not arrive within recvTimeout is reported as the empty message for that record and for the records after it,
// and the session is not used again: from here on a missing message is an observation, not a transport excuse.
func (s *session) roundtripBatch(vs []dastard.VerifRecord, alreadySent bool) (msgs [][2][][]byte, complete bool) {
	msgs = make([][2][][]byte, len(vs))
	if !alreadySent { // (a PublishData batch has been forwarded to the publishers by VerifPublishThenEncode)
		s.pub[0].SendBatch(vs)
		s.pub[1].SendBatch(vs)
	}
	for w := 0; w < 2; w++ {
		for i := range vs {
			m, err := s.all[w].RecvMessageBytes(0)
			if err != nil {
				s.ok = false
				return msgs, false
			}
			msgs[i][w] = m
		}
	}
	for w := 0; w < 2; w++ {
		for i, v := range vs {
			if !subscribed(v.Chan) {
				continue
			}
			m, err := s.filt[w].RecvMessageBytes(0)
			if err != nil {
				s.ok = false
				msgs[i][w] = [][]byte{}
				return msgs, false
			}
			same := len(m) == len(msgs[i][w])
			for k := 0; same && k < len(m); k++ {
				same = string(m[k]) == string(msgs[i][w][k])
			}
			if !same {
				msgs[i][w] = append(append([][]byte{}, msgs[i][w]...), m...)
			}
		}
	}
	return msgs, true
}

// listen keeps both unfiltered SUB sockets open for d and returns every message that arrives.
func (s *session) listen(d time.Duration) (stray [][][]byte) {
	deadline := time.Now().Add(d)
	for w := 0; w < 2; w++ {
		s.all[w].SetRcvtimeo(50 * time.Millisecond)
	}
	for time.Now().Before(deadline) {
		for w := 0; w < 2; w++ {
			if m, err := s.all[w].RecvMessageBytes(0); err == nil {
				stray = append(stray, m)
			}
		}
	}
	for w := 0; w < 2; w++ {
		s.all[w].SetRcvtimeo(recvTimeout)
	}
	return stray
}

// frameList renders frames as a Coq list of byte lists.  Coq spends ~40 us per decimal digit on numerals and its
// parser overflows the stack on list literals of ~100 k elements, so a frame longer than 1024 bytes is written as
// (cat [chunk; chunk; ...]) (cat = concat, Run.v) with every byte as one of the 256 constants b00 .. bff of Run.v
// (b2a = 42): same bytes, 2.3 times faster to read.
func frameList(fr [][]byte) string {
	const chunk = 2048
	const hexdigits = "0123456789abcdef"
	items := make([]string, len(fr))
	for i, f := range fr {
		if len(f) <= 1024 {
			items[i] = lib.ZListBytes(f)
			continue
		}
		// consecutive identical chunks are written once: (catr [rep k [chunk]; ...]) - lossless, any chunk that
		// differs from its neighbour is written out
		var sb strings.Builder
		sb.WriteString("(catr [")
		first := true
		for a := 0; a < len(f); {
			b := a + chunk
			if b > len(f) {
				b = len(f)
			}
			k := 1
			for b-a == chunk && a+(k+1)*chunk <= len(f) && string(f[a+k*chunk:a+(k+1)*chunk]) == string(f[a:b]) {
				k++
			}
			if !first {
				sb.WriteString(";\n ")
			}
			first = false
			fmt.Fprintf(&sb, "rep %d [", k)
			for x := a; x < b; x++ {
				if x > a {
					sb.WriteByte(';')
				}
				sb.WriteByte('b')
				sb.WriteByte(hexdigits[f[x]>>4])
				sb.WriteByte(hexdigits[f[x]&15])
			}
			sb.WriteByte(']')
			a += k * (b - a)
		}
		sb.WriteString("])")
		items[i] = sb.String()
	}
	return lib.List(items)
}

func copyFrames(fr [][]byte) [][]byte {
	out := make([][]byte, len(fr))
	for i, f := range fr {
		out[i] = append([]byte{}, f...)
	}
	return out
}

type obsv struct {
	RecFrames []int  `json:"record_frame_lengths"`
	SumFrames []int  `json:"summary_frame_lengths"`
	RecHeader string `json:"record_header_hex,omitempty"`
	SumHeader string `json:"summary_header_hex,omitempty"`
	Panic     string `json:"panic,omitempty"`
}

func f32bitsOf64(bits uint64) uint32 { return math.Float32bits(float32(math.Float64frombits(bits))) }

func classify(tags map[string]bool, bits uint64) {
	f := math.Float64frombits(bits)
	switch {
	case math.IsNaN(f):
		tags["float-nan"] = true
	case math.IsInf(f, 0):
		tags["float-inf"] = true
	case f != 0 && math.Abs(f) < 2.2250738585072014e-308:
		tags["float-denormal"] = true
	case f != 0 && math.Abs(f) < 1.1754943508222875e-38:
		tags["float-below-float32-normal"] = true
	case math.Abs(f) > math.MaxFloat32:
		tags["float-above-float32-max"] = true
	}
}

type hashed struct {
	C      int64
	S      bool
	P      int64
	D      []int
	R      []int64
	Pe, Vp uint32
	T, F   int64
	V, Co  []uint64
	E      bool
}

type prepared struct {
	c        Case
	data     []int
	dataTerm string
	v        dastard.VerifRecord
	recmsg   [][]byte // held exactly as returned (no copy) until every message of the batch has been built
	summsg   [][]byte
	e2eTag   string
}

func prepare(c Case) *prepared {
	p := &prepared{}
	p.data = c.Data
	if len(c.Ramp) == 3 {
		a, b, n := c.Ramp[0], c.Ramp[1], c.Ramp[2]
		p.data = make([]int, n)
		for i := range p.data {
			p.data[i] = int(((a+b*int64(i))%65536 + 65536) % 65536)
		}
		p.dataTerm = fmt.Sprintf("(ramp %s %s %s)", lib.Z(a), lib.Z(b), lib.Z(n))
	} else {
		p.dataTerm = lib.ZListInt(p.data)
	}
	for len(c.Vals) < 5 {
		c.Vals = append(c.Vals, 0)
	}
	p.c = c
	raw := make([]uint16, len(p.data))
	for i, v := range p.data {
		raw[i] = uint16(v)
	}
	coefs := make([]float64, len(c.Coefs))
	for i, b := range c.Coefs {
		coefs[i] = math.Float64frombits(b)
	}
	if len(c.Coefs) == 0 && c.Frame&1 == 0 {
		coefs = nil // nil and empty slices must both give an empty frame
	}
	if uint64(c.Frame)%3 != 0 {
		// slices with spare capacity behind their length (a prefix of a longer array, the result of append): a
		// message must carry len() elements, never cap() (seed C14-18)
		extra := int(uint64(c.Frame)%5) + 1
		cb := make([]float64, len(coefs)+extra)
		for i := range cb {
			cb[i] = -7.0e77
		}
		copy(cb, coefs)
		if coefs != nil {
			coefs = cb[:len(coefs)]
		}
		rb := make([]uint16, len(raw)+extra)
		for i := range rb {
			rb[i] = 0xA5A5
		}
		copy(rb, raw)
		raw = rb[:len(raw)]
	}
	p.v = dastard.VerifRecord{Chan: int(c.Chan), Frame: c.Frame, TimeNs: c.Time, Pre: int(c.Pre), Data: raw, Signed: c.Signed,
		PretrigMean: math.Float64frombits(c.Vals[0]), PeakValue: math.Float64frombits(c.Vals[1]),
		PulseRMS: math.Float64frombits(c.Vals[2]), PulseAverage: math.Float64frombits(c.Vals[3]),
		ResidualStdDev: math.Float64frombits(c.Vals[4]),
		PretrigDelta:   12345.678, // not part of either message
		ModelCoefs:     coefs,
		VoltsPerArb:    math.Float32frombits(c.Vpa), SampPeriod: math.Float32frombits(c.Period)}
	return p
}

func runBatch(b Batch) lib.Result {
	one := uint16(1)
	if *(*byte)(unsafe.Pointer(&one)) != 1 {
		fmt.Fprintln(os.Stderr, "c14: host is not little-endian; the property's layout assumption does not hold here")
		os.Exit(2)
	}
	res := lib.Result{ID: b.ID}
	ps := make([]*prepared, len(b.Ops))
	var hs []hashed
	for i, c := range b.Ops {
		ps[i] = prepare(c)
		c = ps[i].c
		hs = append(hs, hashed{c.Chan, c.Signed, c.Pre, c.Data, c.Ramp, c.Period, c.Vpa, c.Time, c.Frame, c.Vals, c.Coefs, c.E2E})
	}
	res.Hash = lib.Hash(struct {
		O, I int
		H    []hashed
		P    *PubSpec
	}{b.Order, b.IdleMs + b.Stress, hs, b.Pub})

	// phase 1: build every message of the batch; the returned frames are kept as they are (not copied)
	panicMsg := ""
	pubForwarded := false
	func() {
		defer func() {
			if e := recover(); e != nil {
				panicMsg = fmt.Sprint(e)
			}
		}()
		if b.Pub != nil {
			dir, err := os.MkdirTemp("", "verif_c14_")
			if err != nil {
				panic(err)
			}
			defer os.RemoveAll(dir)
			vs := make([]dastard.VerifRecord, len(ps))
			allE2E := true
			for i, p := range ps {
				vs[i] = p.v
				allE2E = allE2E && p.c.E2E
			}
			var forward [2]*dastard.VerifPub
			var s *session
			if allE2E {
				if s = getSession(); s != nil && s.ok {
					forward = s.pub
					pubForwarded = true
				}
			}
			recs, sums, _ := dastard.VerifPublishThenEncode(vs, b.Pub.Writers, b.Pub.Paused, dir, forward)
			for i, p := range ps {
				p.recmsg, p.summsg = [][]byte{}, [][]byte{}
				if i < len(recs) {
					p.recmsg = recs[i]
				}
				if i < len(sums) {
					p.summsg = sums[i]
				}
			}
			return
		}
		switch b.Order {
		case 1:
			for _, p := range ps {
				p.recmsg = dastard.VerifMessageRecord(p.v)
			}
			for _, p := range ps {
				p.summsg = dastard.VerifMessageSummary(p.v)
			}
		case 2:
			for _, p := range ps {
				p.summsg = dastard.VerifMessageSummary(p.v)
				p.recmsg = dastard.VerifMessageRecord(p.v)
			}
		default:
			for _, p := range ps {
				p.recmsg = dastard.VerifMessageRecord(p.v)
				p.summsg = dastard.VerifMessageSummary(p.v)
			}
		}
	}()
	// phase 1a (stress batches): goroutine A builds the record and summary message of the first record over and
	// over while goroutine B does the same for the second record (in production the two publisher goroutines
	// encode concurrently).  Every message built is compared with the one built alone in phase 1; the first one
	// that differs becomes the observation for its record.  On a race-free encoder nothing ever differs, so the
	// outcome on the unchanged tree does not depend on scheduling.
	stressed := false
	if b.Stress > 0 && len(ps) >= 2 && panicMsg == "" {
		stressed = true
		done := make(chan struct{}, 2)
		for g := 0; g < 2; g++ {
			go func(p *prepared) {
				defer func() { recover(); done <- struct{}{} }()
				refR, refS := copyFrames(p.recmsg), copyFrames(p.summsg)
				var badR, badS [][]byte
				for it := 0; it < b.Stress && (badR == nil || badS == nil); it++ {
					if m := dastard.VerifMessageRecord(p.v); badR == nil && !equalFrames(m, refR) {
						badR = copyFrames(m)
					}
					if m := dastard.VerifMessageSummary(p.v); badS == nil && !equalFrames(m, refS) {
						badS = copyFrames(m)
					}
				}
				if badR != nil {
					p.recmsg = badR
				}
				if badS != nil {
					p.summsg = badS
				}
			}(ps[g])
		}
		<-done
		<-done
	}

	// phase 1b: the flagged records of the batch also travel through the real PUB sockets, all of them in ONE
	// channel send per publisher; what the SUB sockets received replaces the directly built frames of that
	// record.  Only a transport that cannot be set up at all falls back to the direct call.
	var stray [][][]byte
	var e2e []*prepared
	var e2eExtra []string
	for _, p := range ps {
		if p.c.E2E {
			e2e = append(e2e, p)
		}
	}
	if len(e2e) > 0 && panicMsg == "" && (b.Pub == nil || pubForwarded) {
		if s := getSession(); s == nil || !s.ok {
			tag := "e2e-unavailable(direct call used)"
			if s != nil {
				tag = "e2e-session-closed-after-a-missing-message(direct call used)"
			}
			for _, p := range e2e {
				p.e2eTag = tag
			}
		} else {
			vs := make([]dastard.VerifRecord, len(e2e))
			for i, p := range e2e {
				vs[i] = p.v
			}
			msgs, complete := s.roundtripBatch(vs, pubForwarded)
			for i, p := range e2e {
				p.recmsg, p.summsg = msgs[i][0], msgs[i][1]
				if p.recmsg == nil {
					p.recmsg = [][]byte{}
				}
				if p.summsg == nil {
					p.summsg = [][]byte{}
				}
				p.e2eTag = "e2e-received-by-unfiltered-SUB"
				if subscribed(p.v.Chan) {
					p.e2eTag = "e2e-received-by-prefix-subscribed-SUB"
				}
			}
			if len(e2e) > 1 {
				e2eExtra = append(e2eExtra, "e2e-2..4-records-in-one-channel-send")
			}
			if !complete {
				e2eExtra = append(e2eExtra, "e2e-message-missing")
			} else if b.IdleMs > 0 {
				stray = s.listen(time.Duration(b.IdleMs) * time.Millisecond)
				e2eExtra = append(e2eExtra, fmt.Sprintf("e2e-idle-watch-%dms", b.IdleMs))
			}
		}
	}

	// phase 2: only now are the held messages read
	var obs []obsv
	var terms []string
	tags := map[string]bool{}
	nontrivial := false
	for _, p := range ps {
		c := p.c
		var ob obsv
		ob.Panic = panicMsg
		for _, f := range p.recmsg {
			ob.RecFrames = append(ob.RecFrames, len(f))
		}
		for _, f := range p.summsg {
			ob.SumFrames = append(ob.SumFrames, len(f))
		}
		if len(p.recmsg) > 0 {
			ob.RecHeader = fmt.Sprintf("%x", p.recmsg[0])
		}
		if len(p.summsg) > 0 {
			ob.SumHeader = fmt.Sprintf("%x", p.summsg[0])
		}
		obs = append(obs, ob)
		var f32 [5]uint32
		for i := range f32 {
			f32[i] = f32bitsOf64(c.Vals[i])
		}
		coefTerms := make([]string, len(c.Coefs))
		for i, x := range c.Coefs {
			coefTerms[i] = lib.ZU(x)
		}
		terms = append(terms, fmt.Sprintf("mk %s %s %s %s %d %d %s %s %d %d %d %d %d [%s] %s %s",
			lib.Z(c.Chan), lib.B(c.Signed), lib.Z(c.Pre), p.dataTerm, c.Period, c.Vpa, lib.Z(c.Time), lib.Z(c.Frame),
			f32[0], f32[1], f32[2], f32[3], f32[4], joinSemi(coefTerms), frameList(p.recmsg), frameList(p.summsg)))
		if recordTags(tags, c, p.data) {
			nontrivial = true
		}
		if p.e2eTag != "" {
			tags[p.e2eTag] = true
		}
	}
	strayTerms := make([]string, len(stray))
	strayHex := []string{}
	for i, m := range stray {
		strayTerms[i] = frameList(m)
		h := ""
		for _, f := range m {
			h += fmt.Sprintf("[%x]", f)
		}
		strayHex = append(strayHex, h)
	}
	res.Term = "mkc " + lib.List(terms) + " " + lib.List(strayTerms)
	res.Impl = struct {
		Records []obsv   `json:"records"`
		Stray   []string `json:"messages_of_no_published_record"`
	}{obs, strayHex}
	if len(stray) > 0 {
		tags["stray-message"] = true
	}
	for _, t := range e2eExtra {
		tags[t] = true
	}
	if stressed {
		tags["concurrent-encode-stress"] = true
	}
	if b.Pub != nil {
		tags[fmt.Sprintf("through-PublishData-writers-mask-%d(1=LJH2.2,2=LJH3,4=OFF)", b.Pub.Writers)] = true
		if b.Pub.Paused {
			tags["through-PublishData-writing-paused"] = true
		}
		if pubForwarded {
			tags["through-PublishData-then-real-PUB-socket"] = true
		}
	}
	if panicMsg != "" {
		tags["panic"] = true
	}
	switch {
	case len(ps) <= 1:
		tags[fmt.Sprintf("batch-of-%d", len(ps))] = true
	default:
		tags["batch-of-2..4"] = true
		tags[fmt.Sprintf("build-order-%d", b.Order)] = true
	}
	res.NonTrivial = nontrivial && len(ps) >= 2
	for t := range tags {
		res.Tags = append(res.Tags, t)
	}
	sort.Strings(res.Tags)
	return res
}

// recordTags adds the input features of one record; it returns whether the record is in the property's
// domain and has at least one sample and one coefficient.
func recordTags(tags map[string]bool, c Case, data []int) bool {
	inDomain := c.Chan >= 0 && c.Chan < 65536 && c.Pre >= 0 && c.Pre < 1<<32
	if !inDomain {
		tags["outside-domain(channel or presamples do not fit the field)"] = true
	}
	switch {
	case c.Chan == 0:
		tags["chan-0"] = true
	case c.Chan > 0 && c.Chan < 256:
		tags["chan-1..255"] = true
	case c.Chan >= 256 && c.Chan < 65535:
		tags["chan-256..65534"] = true
	case c.Chan == 65535:
		tags["chan-65535"] = true
	}
	if c.Signed {
		tags["signed"] = true
	} else {
		tags["unsigned"] = true
	}
	switch n := len(data); {
	case n == 0:
		tags["len-0"] = true
	case n < 256:
		tags["len-1..255"] = true
	case n < 4096:
		tags["len-256..4095"] = true
	case n < 65536:
		tags["len-4096..65535"] = true
	default:
		tags["len>=65536"] = true
	}
	if c.Pre >= 65536 && inDomain {
		tags["presamples>=2^16"] = true
	}
	if c.Time < 0 {
		tags["time-negative"] = true
	}
	if c.Time >= 1<<62 || c.Time <= -(1<<62) {
		tags["time-extreme(|t|>=2^62)"] = true
	}
	if c.Frame < 0 {
		tags["frame-negative"] = true
	}
	if c.Frame >= 1<<31 {
		tags["frame>=2^31"] = true
	}
	if c.Frame >= 1<<62 {
		tags["frame>=2^62"] = true
	}
	for _, b := range c.Vals {
		classify(tags, b)
	}
	for _, b := range c.Coefs {
		classify(tags, b)
	}
	for _, b := range []uint32{c.Period, c.Vpa} {
		if b&0x7f800000 == 0x7f800000 {
			tags["float32-field-nan-or-inf"] = true
		} else if b&0x7f800000 == 0 && b&0x007fffff != 0 {
			tags["float32-field-denormal"] = true
		}
	}
	switch nc := len(c.Coefs); {
	case nc == 0:
		tags["coefs-0"] = true
	case nc < 16:
		tags["coefs-1..15"] = true
	default:
		tags["coefs-16..64"] = true
	}
	return inDomain && len(data) > 0 && len(c.Coefs) > 0
}

func joinSemi(xs []string) string {
	s := ""
	for i, x := range xs {
		if i > 0 {
			s += ";"
		}
		s += x
	}
	return s
}

func main() {
	h := lib.Harness{
		Gen: gen,
		RunCase: func(raw json.RawMessage) (lib.Result, error) {
			var b Batch
			if err := json.Unmarshal(raw, &b); err != nil {
				return lib.Result{}, err
			}
			return runBatch(b), nil
		},
		Header:   "From Dastard Require Import Common.ZX Common.CaseLib C14.Model C14.Run.",
		Verdict:  "verdict",
		PerShard: 25,
		Isolate:  true, // chunks run in parallel child processes (the idle watch of one case overlaps the rest)
		Chunk:    24,
		Workers:  8,
	}
	h.Main()
}
