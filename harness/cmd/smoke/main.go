// smoke: development aid — one edge-triggered channel through the real ProcessSegments via the verif bench.
package main

import (
	"fmt"

	"github.com/usnistgov/dastard"
)

func main() {
	ts := dastard.TriggerState{EdgeTrigger: true, EdgeRising: true, EdgeLevel: 100}
	b, err := dastard.VerifNewBench(2, 10, 40, 10000, []dastard.FullTriggerState{{ChannelIndices: []int{0, 1}, TriggerState: ts}})
	if err != nil {
		panic(err)
	}
	defer b.Close()
	mk := func(n, step int) []uint16 {
		d := make([]uint16, n)
		for i := range d {
			d[i] = 1000
			if step >= 0 && i >= step {
				d[i] = 3000
			}
		}
		return d
	}
	for k := 0; k < 3; k++ {
		step := -1
		if k == 1 {
			step = 50
		}
		res := b.Block([][]uint16{mk(100, step), mk(100, -1)}, []bool{false, false}, int64(100*k), int64(1e9+1e5*100*k), 100000, nil, 0)
		fmt.Println("block", k, "err", res.Err, "prim", res.Primaries)
		for c, rs := range res.Records {
			for _, r := range rs {
				fmt.Println("  ch", c, r.VerifString())
			}
		}
		n, f, _, _ := b.VerifDsp(0).VerifStreamInfo()
		fmt.Println("  retained", n, f, b.VerifDsp(0).VerifNToKeep())
	}
}
