// C17 harness: a running acquisition is free of data races (PARTIAL: ownership protocol + dynamic
// validation, see coq/theories/C17/Spec.v and design.d/C17.md).
//
// Two kinds of case, both over the same workloads (package scen):
//
//	conf  the scenario runs in this process with logging hooks at the verifAccess / verifPoint sites;
//	      the logged execution is translated into the model's events and evaluated in Coq: the model's
//	      ownership monitor must accept it and happens-before computed on the log must order every
//	      pair of conflicting accesses.
//	race  the scenario runs in a second binary (cmd/c17/racer, embedded here as source and built with
//	      `go build -race` against the current tree when the harness first needs it) with seeded
//	      perturbations at the hook sites; every report of the Go race detector that re-appears when the
//	      same scenario and seed are run again is a violation.  The detector is a search tool and an
//	      inventory validator, not the proof.
package main

import (
	"crypto/sha256"
	"embed"
	"encoding/hex"
	"encoding/json"
	"fmt"
	"os"
	"os/exec"
	"path/filepath"
	"regexp"
	"sort"
	"strings"
	"syscall"
	"time"

	"verifharness/cmd/c17/scen"
	"verifharness/lib"
)

//go:embed scen/*.go racer/*.go
var sources embed.FS

// ---------- generation ----------

func ops(names ...interface{}) []scen.Op {
	var out []scen.Op
	for i := 0; i < len(names); i++ {
		o := scen.Op{Op: names[i].(string)}
		if i+1 < len(names) {
			if n, ok := names[i+1].(int); ok {
				o.N = n
				i++
			}
		}
		out = append(out, o)
	}
	return out
}

func corpus() []scen.Scenario {
	full := ops("trig", 1, "couple", "wait", 2, "wstart", 0, "wcomment", "rcomment", 6, "store", 20, "wait", 3,
		"wpause", "rcomment", 3, "wunpause", "label", 1, "sendall", "wait", 2, "wstop", "store", 10, "store", 10, "wait", 2)
	short := ops("trig", 0, "couple", "wait", 1, "wstart", 1, "rcomment", 4, "store", 12, "wait", 2, "wstop")
	var out []scen.Scenario
	for _, kind := range []string{"conf", "race"} {
		out = append(out,
			// the witnesses of the pre-fix breaches: frame counter, nSamp, external-trigger queue and timing
			// (Abaco with external-trigger packets), archive block (store, then store again), trigger counter
			// (ReadComment while blocks are processed)
			scen.Scenario{Kind: kind, Source: "abaco", Nchan: 3, Groups: 2, ExtTrig: true, Seed: 1, Ops: full},
			scen.Scenario{Kind: kind, Source: "triangle", Nchan: 4, Seed: 2,
				Ops: ops("trig", 1, "couple", "wait", 2, "wstart", 0, "wcomment", "rcomment", 12, "store", 700, "wait", 3,
					"wpause", "rcomment", 6, "wunpause", "label", 1, "sendall", "lengths", 1, "wait", 2, "wstop", "lengths", 1,
					"store", 10, "store", 10, "wait", 2)},
			scen.Scenario{Kind: kind, Source: "simpulse", Nchan: 3, Seed: 3,
				Ops: ops("trig", 1, "couple", "wait", 2, "wstart", 1, "rcomment", 8, "store", 900, "wait", 3, "uncouple",
					"trig", 0, "wait", 2, "wstop", "store", 10, "wait", 1)},
			scen.Scenario{Kind: kind, Source: "abaco", Nchan: 2, Groups: 1, Seed: 4, Ops: short},
		)
	}
	// long enough (more than two seconds of frames) for two TRIGGERRATE messages: the status updater
	// still holds the first one when the core loop makes the second
	out = append(out, scen.Scenario{Kind: "race", Source: "triangle", Nchan: 2, Seed: 5, Ops: ops("trig", 1, "wait", 200, "sendall", "wait", 190)})
	// a slow frame clock: every block spans two trigger-rate periods, so one call makes several messages
	out = append(out, scen.Scenario{Kind: "race", Source: "abaco", Nchan: 2, Groups: 1, Slow: true, Seed: 6, Ops: ops("trig", 1, "wait", 6)})
	// many requests back to back while blocks flow (state touched from the client's thread instead of the core loop)
	var hammer []scen.Op
	hammer = append(hammer, ops("trig", 1, "wstart", 0, "wait", 1)...)
	for i := 0; i < 6; i++ {
		hammer = append(hammer, ops("wpause", "rcomment", 2, "wunpause", "label", i, "sendall", "couple", "trig", i, "uncouple", "wcomment")...)
	}
	hammer = append(hammer, ops("wstop", "lengths", 1, "wait", 1)...)
	out = append(out, scen.Scenario{Kind: "race", Source: "triangle", Nchan: 3, Seed: 7, Ops: hammer},
		scen.Scenario{Kind: "race", Source: "simpulse", Nchan: 2, Seed: 8, Ops: hammer})
	for _, kind := range []string{"race", "conf"} {
		out = append(out, special(kind, 0)...)
	}
	out = append(out, selfEnd(0))
	out = append(out, raceOnly(0)...)
	for _, sc := range raceOnly(1) { // a second chance for the detection that depends most on the run's timing
		if sc.Source == "lancero" {
			out = append(out, sc)
		}
	}
	return out
}

// special: workloads for hand-overs that only show under particular timing.
//   - archive requests back to back, each issued as soon as the previous one is filled, of equal and then
//     shrinking sizes: the writer goroutine of one request overlaps the filling of the next
//   - one slow request on the scripted Abaco source: the core loop falls behind the reader by more than
//     100 ms, so the slow path of block assembly runs
//   - ConfigureTriggers with edge-multi triggering on, repeated while blocks flow: the per-channel workers
//     then WRITE the trigger state on every block
func special(kind string, variant int) []scen.Scenario {
	v := variant
	return []scen.Scenario{
		{Kind: kind, Source: "triangle", Nchan: 8 + 4*(v%3), Seed: uint64(11 + v), Ops: ops("trig", 1, "wait", 1, "storeseq", 3+v%2, "wait", 2)},
		{Kind: kind, Source: "abaco", Nchan: 2 + v%3, Groups: 1 + v%2, ExtTrig: v%2 == 1, Seed: uint64(21 + v),
			Ops: ops("trig", v%3, "wait", 2, "stall", 400+50*(v%3), "wait", 6)},
		{Kind: kind, Source: "simpulse", Nchan: 4, Pulse: 2000, Seed: uint64(31 + v),
			Ops: ops("wait", 2, "emt", 300, "wait", 6, "emt", 200, "wait", 6, "sendall", "emt", 300-10*v, "wait", 4)},
		// group triggering: primaries in channel 0 only, secondaries in all the others, files being written
		{Kind: kind, Source: []string{"triangle", "simpulse"}[v%2], Nchan: 8, Seed: uint64(41 + v),
			Ops: ops("trig1", "couple", "wait", 2, "wstart", v%2, "wait", 8+2*v, "wstop")},
		// the data files cannot be written (/dev/full): the file writer goroutines meet the error by themselves
		{Kind: kind, Source: "simpulse", Nchan: 8, Pulse: 2000, Seed: uint64(51 + v),
			Ops: ops("trig", 3, "biglen", "wfull", "trig", 0, "wait", 24+4*v, "wpause", "wunpause", "wait", 6, "wstop")},
	}
}

// raceOnly: workloads that only make sense under the race detector.
//   - the process itself is the consumer of the record channels and reads every sample, a little late
//     (the ZMQ publishers let C code read them)
//   - a Lancero source on a simulated card with ConfigureMixFraction requests while blocks flow
//   - the scripted Abaco source with phase unwrapping on (per-channel goroutines inside demuxData)
func raceOnly(v int) []scen.Scenario {
	return []scen.Scenario{
		{Kind: "race", Source: []string{"triangle", "simpulse"}[v%2], Nchan: 3 + v, GoPub: true, Seed: uint64(71 + v),
			Ops: ops("trig", 1+v%2, "couple", "wait", 12+4*v, "trig", 0, "wait", 6)},
		{Kind: "race", Source: "lancero", Nchan: 16, Seed: uint64(81 + v),
			Ops: ops("trig", v%3, "wait", 3, "mix", 8+2*v, "sendall", "wait", 2, "mix", 4, "wait", 1)},
		{Kind: "race", Source: "abaco", Nchan: 3 + v%2, Groups: 1 + v%2, Unwrap: true, Seed: uint64(91 + v),
			Ops: ops("trig", 1, "wait", 6+2*v)},
		// fire-and-forget requests followed by further requests: state labels with WaitForError=false
		{Kind: "race", Source: []string{"triangle", "simpulse"}[v%2], Nchan: 2 + v, Seed: uint64(101 + v),
			Ops: ops("trig", 1, "wstart", v%2, "wait", 2, "labelnw", 3, "wait", 1, "labelnw", 4+v, "rcomment", 2, "labelnw", 2, "label", 9, "wait", 1, "wstop")},
		// fault path: a stalled disk (FIFOs nobody reads) until the 1000-record queues of the data files are full
		{Kind: "race", Source: "simpulse", Nchan: 3 + v%2, Pulse: 2000, Seed: uint64(111 + v),
			Ops: ops("trig", 3, "wslow", "trigfast", "wait", 30+4*v, "wstop", "wait", 2)},
		// fault path: a Lancero card that loses bytes (reads that begin mid-frame) early in the run
		{Kind: "race", Source: "lancero", Nchan: 16, Drops: true, Seed: uint64(121 + v),
			Ops: ops("idle", 650+50*v, "trig", v%3, "wait", 2)},
		// the same quiet client (no requests, one sleep) on the scripted Abaco source: reader and block assembly
		// left to themselves
		{Kind: "race", Source: "abaco", Nchan: 2 + v%2, Groups: 1 + v%2, ExtTrig: true, Unwrap: v%2 == 1, Seed: uint64(131 + v),
			Ops: ops("idle", 500+50*v, "wait", 1)},
	}
}

// selfEnd: the Abaco source ends by itself and the client's next request is ConfigureAbacoSource (race prong only).
func selfEnd(v int) scen.Scenario {
	return scen.Scenario{Kind: "race", Source: "abaco", Nchan: 2 + v%2, Groups: 1 + v%2, Seed: uint64(61 + v),
		Ops: ops("trig", v%3, "wait", 2+v, "selfend")}
}

func genOps(r *lib.Rng, nops int) []scen.Op {
	kinds := []string{"trig", "trig", "couple", "uncouple", "wstart", "wpause", "wunpause", "wstop", "rcomment", "rcomment",
		"wcomment", "label", "store", "store", "lengths", "sendall", "wait", "wait", "wait", "storeseq", "stall"}
	out := []scen.Op{{Op: "trig", N: r.Intn(3)}}
	for i := 0; i < nops; i++ {
		o := scen.Op{Op: kinds[r.Intn(len(kinds))]}
		switch o.Op {
		case "trig":
			o.N = r.Intn(4)
		case "wstart", "lengths", "label":
			o.N = r.Intn(2)
		case "rcomment":
			o.N = r.Range(1, 8)
		case "store":
			o.N = r.Pick([]int{1, 10, 30, 600, 2000})
		case "wait":
			o.N = r.Range(1, 3)
		case "storeseq":
			o.N = r.Range(2, 3)
		case "stall":
			o.N = r.Pick([]int{120, 250, 400})
		}
		out = append(out, o)
	}
	return append(out, scen.Op{Op: "wait", N: 1})
}

func gen(seed uint64, tier string) []interface{} {
	r := lib.NewRng(seed)
	nconf, nrace := 6, 4
	if tier == "thorough" {
		nconf, nrace = 40, 160
	}
	var out []interface{}
	id := int64(1)
	add := func(s scen.Scenario) {
		s.ID = id
		id++
		out = append(out, s)
	}
	for _, s := range corpus() {
		add(s)
	}
	mk := func(kind string) scen.Scenario {
		q := r.Fork()
		s := scen.Scenario{Kind: kind, Seed: q.U64() % 1000000}
		switch q.Intn(4) {
		case 0:
			s.Source, s.Nchan = "triangle", q.Range(1, 6)
		case 1:
			s.Source, s.Nchan = "simpulse", q.Range(1, 5)
		default:
			s.Source, s.Nchan, s.Groups, s.ExtTrig = "abaco", q.Range(1, 4), q.Range(1, 2), q.Chance(2, 3)
		}
		n := q.Range(4, 12)
		if tier == "thorough" && kind == "race" {
			n = q.Range(6, 24)
		}
		s.Ops = genOps(q, n)
		return s
	}
	if tier == "thorough" {
		for v := 1; v <= 3; v++ {
			for _, s := range special("race", v) {
				add(s)
			}
			add(selfEnd(v))
			for _, s := range raceOnly(v) {
				add(s)
			}
		}
	}
	for i := 0; i < nconf; i++ {
		add(mk("conf"))
	}
	for i := 0; i < nrace; i++ {
		add(mk("race"))
	}
	return out
}

// ---------- shared ----------

func repoDir() string {
	if d := os.Getenv("VERIF_REPO"); d != "" {
		return d
	}
	return "/repo"
}

func scratch(tag string) (string, func()) {
	d, err := os.MkdirTemp("", "c17_"+tag+"_")
	if err != nil {
		panic(err)
	}
	return d, func() { os.RemoveAll(d) }
}

func tagsOf(s scen.Scenario, o scen.Outcome) []string {
	t := []string{"kind:" + s.Kind, "source:" + s.Source}
	if s.ExtTrig {
		t = append(t, "exttrig")
	}
	t = append(t, o.Tags...)
	sort.Strings(t)
	return t
}

func nonTrivial(s scen.Scenario, o scen.Outcome) bool {
	has := map[string]bool{}
	for _, t := range o.Tags {
		has[t] = true
	}
	return o.Blocks >= 3 && has["op:trig"] && (has["op:store"] || has["op:wstart"])
}

// ---------- conformance ----------

func runConf(s scen.Scenario) (lib.Result, error) {
	res := lib.Result{ID: s.ID, Hash: lib.Hash(s)}
	dir, clean := scratch("conf")
	defer clean()
	lg := &scen.Logger{}
	h := scen.Hooks{Point: lg.Point, Access: lg.Access, Started: lg.Started, Return: lg.ClientReturn, Blocks: lg.Blocks}
	out := scen.Run(s, h, dir, repoDir())
	if len(out.Errs) > 0 || out.Stuck != "" {
		return res, fmt.Errorf("case %d: scenario did not run: %v stuck=%q", s.ID, out.Errs, out.Stuck)
	}
	time.Sleep(20 * time.Millisecond) // archive writers that were released last
	terms, unknown := scen.Translate(lg.Events(), out.Names, s.Source != "abaco")
	if len(unknown) > 0 {
		return res, fmt.Errorf("case %d: hook sites the translation does not know: %v", s.ID, unknown[:1])
	}
	res.Tags = tagsOf(s, out)
	const maxEvents = 4000 // happens-before is evaluated pairwise in Coq; a prefix of a log is a log
	if len(terms) > maxEvents {
		terms = terms[:maxEvents]
		res.Tags = append(res.Tags, "log-truncated")
	}
	res.Term = fmt.Sprintf("conf %d [\n  %s]", len(out.Names), strings.Join(terms, ";\n  "))
	res.Impl = map[string]interface{}{"blocks": out.Blocks, "events": len(terms), "op_errs": out.OpErrs}
	res.NonTrivial = nonTrivial(s, out)
	return res, nil
}

// ---------- race search ----------

func verifRoot() string {
	exe, err := os.Executable()
	if err == nil {
		root := filepath.Dir(filepath.Dir(filepath.Dir(exe))) // <root>/build/bin/hx_c17
		if _, err := os.Stat(filepath.Join(root, "harness", "go.mod.tmpl")); err == nil {
			return root
		}
	}
	return ""
}

// ensureRacer builds (once per tree state, under a file lock) the race-instrumented binary in a
// private module directory and returns its path.
func ensureRacer() (string, error) {
	repo := repoDir()
	base := filepath.Join(os.TempDir(), "c17_racer")
	if root := verifRoot(); root != "" {
		base = filepath.Join(root, "build", "c17")
	}
	h := sha256.Sum256([]byte(repo))
	dir := filepath.Join(base, "mod_"+hex.EncodeToString(h[:4]))
	if err := os.MkdirAll(dir, 0o755); err != nil {
		return "", err
	}
	lock, err := os.OpenFile(filepath.Join(dir, ".lock"), os.O_CREATE|os.O_RDWR, 0o644)
	if err != nil {
		return "", err
	}
	defer lock.Close()
	if err := syscall.Flock(int(lock.Fd()), syscall.LOCK_EX); err != nil {
		return "", err
	}
	defer syscall.Flock(int(lock.Fd()), syscall.LOCK_UN)
	for _, sub := range []string{"scen", "racer"} {
		ents, err := sources.ReadDir(sub)
		if err != nil {
			return "", err
		}
		d := filepath.Join(dir, "cmd", "c17", sub)
		if err := os.MkdirAll(d, 0o755); err != nil {
			return "", err
		}
		for _, e := range ents {
			b, _ := sources.ReadFile(sub + "/" + e.Name())
			old, _ := os.ReadFile(filepath.Join(d, e.Name()))
			if string(old) != string(b) {
				if err := os.WriteFile(filepath.Join(d, e.Name()), b, 0o644); err != nil {
					return "", err
				}
			}
		}
	}
	gomod := "module verifharness\n\ngo 1.21\n\nrequire github.com/usnistgov/dastard v0.0.0\n\nreplace github.com/usnistgov/dastard => " + repo + "\n"
	if err := os.WriteFile(filepath.Join(dir, "go.mod"), []byte(gomod), 0o644); err != nil {
		return "", err
	}
	sum, err := os.ReadFile(filepath.Join(repo, "go.sum"))
	if err != nil {
		return "", err
	}
	if err := os.WriteFile(filepath.Join(dir, "go.sum"), sum, 0o644); err != nil {
		return "", err
	}
	bin := filepath.Join(dir, "racer_bin")
	cmd := exec.Command("go", "build", "-race", "-tags", "verif", "-o", bin, "./cmd/c17/racer")
	cmd.Dir = dir
	cmd.Env = append(os.Environ(), "GOFLAGS=-mod=mod", "GOPROXY=off", "GOSUMDB=off", "GOTOOLCHAIN=local", "CGO_ENABLED=1")
	if outp, err := cmd.CombinedOutput(); err != nil {
		return "", fmt.Errorf("go build -race of the racer failed: %v\n%s", err, tailStr(string(outp), 3000))
	}
	return bin, nil
}

func tailStr(s string, n int) string {
	if len(s) > n {
		return s[len(s)-n:]
	}
	return s
}

// Report is one race-detector report reduced to what is stable across runs.
type Report struct {
	Loc    int      `json:"loc"`  // inventory number (0: outside the inventory)
	Name   string   `json:"name"` // inventory name
	Sites  []string `json:"sites"`
	Report string   `json:"report"`
}

var inventory = []struct {
	id   int
	name string
	re   *regexp.Regexp
}{
	{1, "nextFrameNum", regexp.MustCompile(`nextFrameNum`)},
	{2, "eTrigPackets", regexp.MustCompile(`eTrigPackets`)},
	{3, "frame timing", regexp.MustCompile(`LastFirmwareTimestamp|LastSubframeCount|TimestampCountsPerSubframe`)},
	{15, "file writer state (asyncbufio)", regexp.MustCompile(`\baw\.`)},
	{16, "sourceState", regexp.MustCompile(`sourceState`)},
	{12, "writingState.externalTriggerNumberObserved", regexp.MustCompile(`externalTriggerNumberObserved`)},
	{5, "block header", regexp.MustCompile(`\.nSamp|externalTriggerRowcounts|block\.err`)},
	{13, "writingState.Paused", regexp.MustCompile(`\.Paused`)},
	{9, "archiveBlock", regexp.MustCompile(`archiveBlock|\bab\b|filled`)},
	{11, "writingState", regexp.MustCompile(`writingState|\bws\.`)},
	{8, "trigger-rate slice", regexp.MustCompile(`countsSeen|CountsSeen`)},
	{14, "SourceControl.status", regexp.MustCompile(`s\.status|isSourceActive`)},
	{17, "Lancero assembler state (mix, external-trigger search)", regexp.MustCompile(`errorScale|\.Mix\[|lastFb|externalTriggerLastState|previousLastSampleTime`)},
	{4, "block segments", regexp.MustCompile(`segments\[|rawData|datacopies|\*dc|dc\[`)},
	{7, "records", regexp.MustCompile(`record|rec\.`)},
	{6, "processor state", regexp.MustCompile(`dsp\.|processors`)},
}

var frameRe = regexp.MustCompile(`^\s+(\S+\.go):(\d+)`)

func srcLine(file string, line int) string {
	b, err := os.ReadFile(file)
	if err != nil {
		return ""
	}
	ls := strings.Split(string(b), "\n")
	if line >= 1 && line <= len(ls) {
		return strings.TrimSpace(ls[line-1])
	}
	return ""
}

func parseReports(text string) []Report {
	repo := repoDir()
	var out []Report
	for _, blk := range strings.Split(text, "==================") {
		if !strings.Contains(blk, "WARNING: DATA RACE") {
			continue
		}
		lines := strings.Split(blk, "\n")
		var sites []string
		var srcs []string
		inAccess := false
		got := false
		for _, ln := range lines {
			t := strings.TrimSpace(ln)
			if strings.HasPrefix(t, "Write at") || strings.HasPrefix(t, "Read at") || strings.HasPrefix(t, "Previous write at") ||
				strings.HasPrefix(t, "Previous read at") || strings.HasPrefix(t, "Atomic") || strings.HasPrefix(t, "Previous atomic") {
				inAccess, got = true, false
				continue
			}
			if strings.HasPrefix(t, "Goroutine ") {
				inAccess = false
				continue
			}
			if inAccess && !got {
				if m := frameRe.FindStringSubmatch(ln); m != nil && strings.HasPrefix(m[1], repo+"/") {
					var n int
					fmt.Sscanf(m[2], "%d", &n)
					src := srcLine(m[1], n)
					sites = append(sites, strings.TrimPrefix(m[1], repo+"/")+": "+src)
					srcs = append(srcs, src)
					got = true
				}
			}
		}
		r := Report{Sites: sites, Report: tailStr(strings.TrimSpace(blk), 2500)}
		for _, inv := range inventory {
			hit := false
			for _, s := range srcs {
				if inv.re.MatchString(s) {
					hit = true
				}
			}
			if hit {
				r.Loc, r.Name = inv.id, inv.name
				break
			}
		}
		if r.Loc == 0 {
			r.Name = "outside the inventory"
		}
		out = append(out, r)
	}
	return out
}

func raceOnce(bin string, s scen.Scenario) ([]Report, scen.Outcome, error) {
	dir, clean := scratch("race")
	defer clean()
	sb, _ := json.Marshal(s)
	sp := filepath.Join(dir, "scenario.json")
	op := filepath.Join(dir, "outcome.json")
	if err := os.WriteFile(sp, sb, 0o644); err != nil {
		return nil, scen.Outcome{}, err
	}
	work := filepath.Join(dir, "work")
	os.MkdirAll(work, 0o755)
	cmd := exec.Command(bin, sp, op, work, repoDir())
	cmd.Env = append(os.Environ(), "GORACE=halt_on_error=0 exitcode=0 log_path="+filepath.Join(dir, "race"))
	var stderr strings.Builder
	cmd.Stderr = &stderr
	done := make(chan error, 1)
	if err := cmd.Start(); err != nil {
		return nil, scen.Outcome{}, err
	}
	go func() { done <- cmd.Wait() }()
	var crash error
	select {
	case err := <-done:
		if err != nil {
			crash = fmt.Errorf("racer failed: %v: %s", err, tailStr(stderr.String(), 2000))
		}
	case <-time.After(120 * time.Second):
		cmd.Process.Kill()
		return nil, scen.Outcome{}, fmt.Errorf("racer did not finish within 120 s")
	}
	var out scen.Outcome
	if crash == nil {
		ob, err := os.ReadFile(op)
		if err != nil {
			return nil, out, err
		}
		if err := json.Unmarshal(ob, &out); err != nil {
			return nil, out, err
		}
	}
	var text strings.Builder
	files, _ := filepath.Glob(filepath.Join(dir, "race.*"))
	sort.Strings(files)
	for _, f := range files {
		b, _ := os.ReadFile(f)
		text.Write(b)
	}
	reps := parseReports(text.String())
	if crash != nil {
		// the pipeline died under the workload (e.g. a WaitGroup misused): what the detector reported before
		// that still counts; a crash without any report is an evaluation error
		if len(reps) == 0 {
			return nil, out, crash
		}
		out.Tags = append(out.Tags, "racer-crashed")
	}
	return reps, out, nil
}

func runRace(s scen.Scenario) (lib.Result, error) {
	res := lib.Result{ID: s.ID, Hash: lib.Hash(s)}
	bin, err := ensureRacer()
	if err != nil {
		return res, err
	}
	reps, out, err := raceOnce(bin, s)
	if err != nil {
		return res, fmt.Errorf("case %d: %v", s.ID, err)
	}
	if len(out.Errs) > 0 || out.Stuck != "" {
		return res, fmt.Errorf("case %d: scenario did not run: %v stuck=%q", s.ID, out.Errs, out.Stuck)
	}
	res.Tags = tagsOf(s, out)
	var confirmed []Report
	if len(reps) > 0 {
		// a report counts only when the same scenario and seed produce a report on the same location again
		seen := map[string]bool{}
		for try := 0; try < 2; try++ {
			again, _, err := raceOnce(bin, s)
			if err != nil {
				continue // this re-run died without a report: it confirms nothing
			}
			for _, r := range again {
				seen[r.Name] = true
			}
		}
		done := map[string]bool{}
		for _, r := range reps {
			if seen[r.Name] && !done[r.Name] {
				done[r.Name] = true
				confirmed = append(confirmed, r)
			}
		}
		if len(confirmed) < len(reps) {
			res.Tags = append(res.Tags, "race-report-not-reproduced")
		}
	}
	ids := make([]int64, 0, len(confirmed))
	for _, r := range confirmed {
		ids = append(ids, int64(r.Loc))
		res.Tags = append(res.Tags, "race:"+r.Name)
	}
	res.Term = "race " + lib.ZList64(ids)
	res.Impl = map[string]interface{}{"blocks": out.Blocks, "op_errs": out.OpErrs, "reports": confirmed, "unconfirmed": len(reps) - len(confirmed)}
	res.NonTrivial = nonTrivial(s, out)
	return res, nil
}

func main() {
	scen.Quiet()
	h := lib.Harness{
		Gen: gen,
		RunCase: func(raw json.RawMessage) (lib.Result, error) {
			var s scen.Scenario
			if err := json.Unmarshal(raw, &s); err != nil {
				return lib.Result{}, err
			}
			if s.Nchan < 1 {
				s.Nchan = 1
			}
			if s.Kind == "race" {
				return runRace(s)
			}
			return runConf(s)
		},
		Crash: func(raw json.RawMessage, stderr string) (lib.Result, error) {
			// the pipeline died under this workload (a panic in a dastard goroutine): there is no log to
			// evaluate; rendered as a mismatch so that the other cases are still evaluated and reported
			var s scen.Scenario
			if err := json.Unmarshal(raw, &s); err != nil {
				return lib.Result{}, err
			}
			return lib.Result{ID: s.ID, Hash: lib.Hash(s), Term: "crashed", Impl: map[string]interface{}{"crash": tailStr(stderr, 1500)},
				Tags: []string{"kind:" + s.Kind, "source:" + s.Source, "crashed"}}, nil
		},
		Header:   "From Dastard Require Import Common.ZX Common.CaseLib C17.Conc C17.Model C17.Run.",
		Verdict:  "verdict",
		PerShard: 4,
		Isolate:  true,
		Chunk:    2,
		Workers:  6,
	}
	h.Main()
}
