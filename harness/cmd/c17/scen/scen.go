// Package scen: the C17 workloads.  One scenario = one run of a real dastard source (simulated
// triangle / sim-pulse source, or the Abaco source fed by scripted packet producers) started through
// an in-process SourceControl, with the real core loop, per-channel workers, broker, record
// publishers and status updater, while ONE client goroutine issues the scenario's requests one
// after the other.  The same code runs (a) inside the c17 harness binary with logging hooks
// (conformance) and (b) inside the racer binary built with `go build -race` (race search).
//
// Nothing here depends on wall-clock values: waiting is "until the core loop has processed N more
// blocks", observed through a request that runs inside the core loop.
package scen

import (
	"fmt"
	"io"
	"log"
	"os"
	"path/filepath"
	"runtime"
	"sort"
	"sync"
	"sync/atomic"
	"syscall"
	"time"

	"github.com/usnistgov/dastard"
	"github.com/usnistgov/dastard/packets"
)

// Op is one client request (or a wait).
type Op struct {
	Op string `json:"op"`
	N  int    `json:"n,omitempty"`
}

// Scenario is the input of one run.
type Scenario struct {
	ID      int64  `json:"id"`
	Kind    string `json:"kind"`   // "conf" (conformance log) or "race" (run under the race detector)
	Source  string `json:"source"` // triangle | simpulse | abaco | lancero (simulated card, race prong only)
	Nchan   int    `json:"nchan"`  // channels (abaco: channels per group)
	Groups  int    `json:"groups,omitempty"`
	ExtTrig bool   `json:"exttrig,omitempty"` // abaco: external-trigger packets in the stream
	Slow    bool   `json:"slow,omitempty"`    // abaco: 5 frames per second, so that one block spans several trigger-rate periods
	Pulse   int    `json:"pulse,omitempty"`   // simpulse: samples per pulse (default 400; 2000 with records of 400 for edge-multi triggering)
	Unwrap  bool   `json:"unwrap,omitempty"`  // abaco: rescale the raw data and unwrap the phase (per-channel goroutines in demuxData)
	Drops   bool   `json:"drops,omitempty"`   // lancero: a scripted card whose 2nd, 4th, 6th and 8th read of the run begin mid-frame
	GoPub   bool   `json:"gopub,omitempty"`   // the process itself consumes the record channels and reads every sample (race prong)
	Seed    uint64 `json:"seed"`              // perturbation seed (race runs)
	Ops     []Op   `json:"ops"`
}

// Hooks are installed for the duration of a run (nil: none).
type Hooks struct {
	Point   func(name string)
	Access  func(loc string, write bool)
	Started func()     // called once Start has returned
	Return  func()     // called on the client's goroutine when a request has returned
	Blocks  func() int // blocks received by the core loop so far (nil: ask the core loop through a request)
}

// Outcome of a run.
type Outcome struct {
	Errs   []string `json:"errs,omitempty"`  // harness-level problems (not property violations)
	Blocks int      `json:"blocks"`          // blocks processed by the core loop
	OpErrs int      `json:"op_errs"`         // requests answered with an error (legal, e.g. READCOMMENT without file)
	Tags   []string `json:"tags,omitempty"`  // features exercised
	Stuck  string   `json:"stuck,omitempty"` // a request did not return
	Names  []string `json:"names,omitempty"` // channel names in channel order
}

const (
	npre  = 4
	nsamp = 8
)

var quietOnce, startupOnce sync.Once

// Quiet silences dastard's loggers and standard output (the harness reports through files).
func Quiet() {
	quietOnce.Do(func() {
		log.SetOutput(io.Discard)
		dastard.UpdateLogger = log.New(io.Discard, "", 0)
		dastard.ProblemLogger = log.New(io.Discard, "", 0)
		if f, err := os.OpenFile(os.DevNull, os.O_WRONLY, 0); err == nil {
			os.Stdout = f
		}
	})
}

// ---- Abaco packet script ----

const (
	fpp            = 4    // frames per packet
	packetsPerTick = 3    // per group
	countsPerFrame = 1000 // at tsRate counts/s -> 100 kHz frame rate
	tsRate         = 1e8
)

func abacoPacket(off, nchan int, sn uint32, slow bool) (*packets.Packet, error) {
	d := make([]int32, fpp*nchan)
	for f := 0; f < fpp; f++ {
		for c := 0; c < nchan; c++ {
			v := int32(10 * c)
			if f == 2 {
				v += 3000 + int32(sn%7)*10 // a step every packet: level and edge triggers fire
			}
			d[f*nchan+c] = v
		}
	}
	cpf := int64(countsPerFrame)
	if slow {
		cpf = 20000000
	}
	ts := uint64(1000000 + int64(sn)*fpp*cpf)
	return dastard.VerifMakeAbacoPacket(off, nchan, sn, false, d, ts, tsRate)
}

func extTrigPackets(repo string) ([]*packets.Packet, error) {
	f, err := os.Open(filepath.Join(repo, "testData", "timer_packets.bin"))
	if err != nil {
		return nil, err
	}
	defer f.Close()
	var out []*packets.Packet
	for {
		p, err := packets.ReadPacket(f)
		if err != nil {
			break
		}
		if p.IsExternalTrigger() {
			out = append(out, p)
		}
	}
	if len(out) == 0 {
		return nil, fmt.Errorf("no external trigger packets in testData/timer_packets.bin")
	}
	return out, nil
}

func abacoScript(s Scenario, ticks int, repo string) ([]*dastard.VerifScriptedProducer, error) {
	g := s.Groups
	if g < 1 {
		g = 1
	}
	prod := &dastard.VerifScriptedProducer{Batches: make([][]*packets.Packet, ticks)}
	sn := uint32(10)
	for k := 0; k < 2; k++ { // two sampled packets per group: enough to learn the rate
		for gi := 0; gi < g; gi++ {
			p, err := abacoPacket(gi*s.Nchan, s.Nchan, sn, s.Slow)
			if err != nil {
				return nil, err
			}
			prod.Sampled = append(prod.Sampled, p)
		}
		sn++
	}
	ppt := packetsPerTick
	if s.Slow {
		ppt = 8 // 32 frames = 6.4 s of frames per block
	}
	for t := 0; t < ticks; t++ {
		for k := 0; k < ppt; k++ {
			for gi := 0; gi < g; gi++ {
				p, err := abacoPacket(gi*s.Nchan, s.Nchan, sn, s.Slow)
				if err != nil {
					return nil, err
				}
				prod.Batches[t] = append(prod.Batches[t], p)
			}
			sn++
		}
		if s.ExtTrig && t%2 == 1 {
			// a fresh parse each time: extractExternalTriggers byte-swaps the payload in place
			ps, err := extTrigPackets(repo)
			if err != nil {
				return nil, err
			}
			prod.Batches[t] = append(prod.Batches[t], ps[0])
		}
	}
	return []*dastard.VerifScriptedProducer{prod}, nil
}

// ---- the run ----

type runner struct {
	s          Scenario
	ctl        *dastard.VerifC17Control
	sc         *dastard.SourceControl
	out        Outcome
	tags       map[string]bool
	dir        string
	done       <-chan struct{}
	release    func()
	srcName    string
	h          Hooks
	names      []string
	reqs       chan func() error // the ONE client goroutine executes the requests in order
	resp       chan error
	started    bool
	ended      bool       // the source has ended by itself
	writing    bool       // writing has been started and not stopped (as far as the client knows)
	runStarted func()     // lancero with drops: tells the scripted card that the run has begun
	dams       []*os.File // read ends of the FIFOs that stand for the data files of a stalled disk
	fast       int32
}

func (r *runner) fail(format string, a ...interface{}) {
	r.out.Errs = append(r.out.Errs, fmt.Sprintf(format, a...))
}

// call runs one request with a watchdog: a request that never returns is reported, not waited for.
func (r *runner) call(name string, f func() error) bool {
	if r.reqs == nil {
		r.reqs = make(chan func() error)
		r.resp = make(chan error, 1)
		go r.client()
	}
	r.reqs <- f
	select {
	case err := <-r.resp:
		if err != nil {
			r.out.OpErrs++
		}
		return true
	case <-time.After(20 * time.Second):
		r.out.Stuck = name
		return false
	}
}

// slowDisk reads what is written to a FIFO at about 100 kB/s until the dam is opened, then as fast as it comes.
func (r *runner) slowDisk(f *os.File) {
	buf := make([]byte, 4096)
	seen := false
	for {
		n, _ := f.Read(buf)
		if n == 0 {
			// nothing there: no writer yet (end of file on a FIFO without writer), an empty pipe, or the
			// writer has closed the file
			if mode := atomic.LoadInt32(&r.fast); mode == 2 || (mode == 1 && seen) {
				if seen {
					// give a writer that is still flushing a last chance
					time.Sleep(5 * time.Millisecond)
					if m, _ := f.Read(buf); m > 0 {
						continue
					}
				}
				f.Close()
				return
			}
			time.Sleep(time.Millisecond)
			continue
		}
		seen = true
		if atomic.LoadInt32(&r.fast) == 0 {
			time.Sleep(40 * time.Millisecond)
		}
	}
}

// undam lets the slow disk of wslow run at full speed again.
func (r *runner) undam() { atomic.StoreInt32(&r.fast, 1) }

// client is the single client thread: a long-lived goroutine, so that the race detector keeps what it
// did (the accesses of short-lived goroutines are forgotten when their slot is re-used).
func (r *runner) client() {
	for f := range r.reqs {
		err := f()
		if r.h.Return != nil {
			r.h.Return()
		}
		r.resp <- err
	}
}

func (r *runner) blocks() (int, bool) {
	n := 0
	ok := r.call("sync", func() error {
		var err error
		n, err = r.ctl.VerifC17Sync()
		return err
	})
	return n, ok
}

// waitBlocks returns when the core loop has processed n more blocks (or the packet script is over).
func (r *runner) waitBlocks(n int) bool {
	count := r.blocks
	pause := 2 * time.Millisecond
	if r.h.Blocks != nil {
		count = func() (int, bool) { return r.h.Blocks(), true }
		pause = 500 * time.Microsecond
	}
	start, ok := count()
	if !ok {
		return false
	}
	deadline := time.Now().Add(15 * time.Second)
	for {
		cur, ok := count()
		if !ok {
			return false
		}
		if cur-start >= n {
			return true
		}
		if r.done != nil {
			select {
			case <-r.done:
				return true
			default:
			}
		}
		if time.Now().After(deadline) {
			r.fail("no %d further blocks within 15 s (have %d)", n, cur-start)
			return false
		}
		time.Sleep(pause)
	}
}

func (r *runner) totalChan() int {
	if r.s.Source == "abaco" {
		g := r.s.Groups
		if g < 1 {
			g = 1
		}
		return g * r.s.Nchan
	}
	return r.s.Nchan
}

func (r *runner) start(repo string, ticks int) error {
	var ok bool
	switch r.s.Source {
	case "triangle":
		r.srcName = "TRIANGLESOURCE"
		cfg := dastard.TriangleSourceConfig{Nchan: r.s.Nchan, SampleRate: 100000, Min: 100, Max: 400}
		if err := r.sc.ConfigureTriangleSource(&cfg, &ok); err != nil {
			return err
		}
	case "simpulse":
		r.srcName = "SIMPULSESOURCE"
		pulse := r.s.Pulse
		if pulse <= 0 {
			pulse = 400
		}
		cfg := dastard.SimPulseSourceConfig{Nchan: r.s.Nchan, SampleRate: 200000, Pedestal: 1000,
			Amplitudes: []float64{5000, 8000}, Nsamp: pulse}
		if err := r.sc.ConfigureSimPulseSource(&cfg, &ok); err != nil {
			return err
		}
	case "abaco":
		r.srcName = "ABACOSOURCE"
		prods, err := abacoScript(r.s, ticks, repo)
		if err != nil {
			return err
		}
		r.done, r.release, err = r.ctl.VerifC17AbacoScript(prods, r.s.Unwrap)
		if err != nil {
			return err
		}
	case "lancero":
		r.srcName = "LANCEROSOURCE"
		if r.s.Drops {
			r.runStarted = r.ctl.VerifC17LanceroDrops(2, 4)
		} else if err := r.ctl.VerifC17LanceroNoHardware(2, 4, 1000); err != nil {
			return err
		}
	default:
		return fmt.Errorf("unknown source %q", r.s.Source)
	}
	// Start runs on the client goroutine like every other request
	var err error
	if !r.call("start", func() error { err = r.sc.Start(&r.srcName, &ok); return err }) {
		return fmt.Errorf("Start did not return")
	}
	return err
}

func (r *runner) op(o Op) bool {
	sc := r.sc
	var ok bool
	nch := r.totalChan()
	all := make([]int, nch)
	for i := range all {
		all[i] = i
	}
	r.tags["op:"+o.Op] = true
	switch o.Op {
	case "trig":
		ts := dastard.TriggerState{AutoDelay: 100 * time.Microsecond, EdgeLevel: 500, EdgeRising: true, LevelRising: true, LevelLevel: 2000}
		switch o.N % 4 {
		case 0:
			ts.AutoTrigger = true
		case 1:
			ts.LevelTrigger = true
			if r.s.Source == "triangle" {
				ts.LevelLevel = 250
			}
		case 2:
			ts.EdgeTrigger = true
			if r.s.Source == "triangle" {
				ts.AutoTrigger = true
			}
		case 3: // all off
		}
		fts := dastard.FullTriggerState{ChannelIndices: all, TriggerState: ts}
		return r.call(o.Op, func() error { return sc.ConfigureTriggers(&fts, &ok) })
	case "trig1":
		// primary (auto) triggers in channel 0 only: with the coupling 0 -> 1..n-1 every other channel gets
		// secondary records and nothing else
		off := dastard.FullTriggerState{ChannelIndices: all}
		if !r.call(o.Op, func() error { return sc.ConfigureTriggers(&off, &ok) }) {
			return false
		}
		ts := dastard.TriggerState{AutoTrigger: true, AutoDelay: 100 * time.Microsecond}
		fts := dastard.FullTriggerState{ChannelIndices: []int{0}, TriggerState: ts}
		return r.call(o.Op, func() error { return sc.ConfigureTriggers(&fts, &ok) })
	case "wfull":
		// START writing LJH files whose data files cannot be written: the file names of the new run
		// directory are made symbolic links to /dev/full before the first record creates them (call this
		// while no trigger is on), so every write of the file's writer goroutine fails with ENOSPC
		cfg := dastard.WriteControlConfig{Request: "START", Path: filepath.Join(r.dir, "data"), WriteLJH22: true}
		var err error
		if !r.call(o.Op, func() error { err = sc.WriteControl(&cfg, &ok); return err }) {
			return false
		}
		if err != nil {
			return true
		}
		r.writing = true
		today := time.Now().Format("20060102")
		runs, _ := filepath.Glob(filepath.Join(r.dir, "data", today, "[0-9][0-9][0-9][0-9]"))
		if len(runs) == 0 {
			r.fail("wfull: no run directory")
			return true
		}
		sort.Strings(runs)
		run := runs[len(runs)-1]
		for _, nm := range r.names {
			os.Symlink("/dev/full", filepath.Join(run, fmt.Sprintf("%s_run%s_%s.ljh", today, filepath.Base(run), nm)))
		}
		return true
	case "wslow":
		// START writing LJH files on a disk that cannot keep up: the data file names of the new run directory are
		// FIFOs (smallest pipe buffer) that the harness reads at about 100 kB/s; with "trigfast" a channel produces
		// 800 kB/s, so pipe and file buffer fill, the file's writer goroutine spends its time blocked in write(2)
		// and its queue of 1000 records fills up.  (A disk that stops altogether would stop the core loop at its
		// next periodic Flush of that file.)  "wstop" and the end of the scenario let the disk run freely again.
		// Call while no trigger is on.
		cfg := dastard.WriteControlConfig{Request: "START", Path: filepath.Join(r.dir, "data"), WriteLJH22: true}
		var err error
		if !r.call(o.Op, func() error { err = sc.WriteControl(&cfg, &ok); return err }) {
			return false
		}
		if err != nil {
			return true
		}
		r.writing = true
		today := time.Now().Format("20060102")
		runs, _ := filepath.Glob(filepath.Join(r.dir, "data", today, "[0-9][0-9][0-9][0-9]"))
		if len(runs) == 0 {
			r.fail("wslow: no run directory")
			return true
		}
		sort.Strings(runs)
		run := runs[len(runs)-1]
		for _, nm := range r.names {
			p := filepath.Join(run, fmt.Sprintf("%s_run%s_%s.ljh", today, filepath.Base(run), nm))
			if err := syscall.Mkfifo(p, 0o644); err != nil {
				r.fail("wslow: mkfifo: %v", err)
				return true
			}
			f, err := os.OpenFile(p, os.O_RDONLY|syscall.O_NONBLOCK, 0)
			if err != nil {
				r.fail("wslow: open fifo: %v", err)
				return true
			}
			syscall.Syscall(syscall.SYS_FCNTL, f.Fd(), 1031 /* F_SETPIPE_SZ */, 4096)
			r.dams = append(r.dams, f)
			go r.slowDisk(f)
		}
		return true
	case "selfend":
		// the source ends by itself; the client's next request is ConfigureAbacoSource, with nothing in
		// between that would synchronise the client with the dying core loop (hence a plain sleep)
		if r.s.Source != "abaco" {
			return true
		}
		if r.release != nil {
			r.release()
		}
		r.ctl.VerifC17AbacoEnds()
		time.Sleep(300 * time.Millisecond)
		cfg := dastard.AbacoSourceConfig{}
		r.ended = true
		return r.call(o.Op, func() error { return sc.ConfigureAbacoSource(&cfg, &ok) })
	case "idle":
		// the client does nothing for N ms - ONE plain sleep.  Requests and repeated short sleeps create
		// runtime timers, and in the race detector's model every timer that fires hands the clock of the
		// goroutine that created it to whoever receives from a timer or ticker next (e.g. a reader loop on its
		// ticker): a client that keeps asking the core loop how far it is thereby orders the reader after the
		// block assembly of earlier reads and hides a race between those two.
		time.Sleep(time.Duration(o.N) * time.Millisecond)
		return true
	case "trigfast":
		// an auto trigger as fast as the record length allows (every 8 samples)
		ts := dastard.TriggerState{AutoTrigger: true, AutoDelay: 40 * time.Microsecond}
		fts := dastard.FullTriggerState{ChannelIndices: all, TriggerState: ts}
		return r.call(o.Op, func() error { return sc.ConfigureTriggers(&fts, &ok) })
	case "couple":
		if nch < 2 {
			return true
		}
		conns := map[int][]int{0: all[1:]}
		return r.call(o.Op, func() error { return sc.AddGroupTriggerCoupling(dastard.GroupTriggerState{Connections: conns}, &ok) })
	case "uncouple":
		b := true
		return r.call(o.Op, func() error { return sc.StopTriggerCoupling(&b, &ok) })
	case "wstart":
		cfg := dastard.WriteControlConfig{Request: "START", Path: filepath.Join(r.dir, "data"), WriteLJH22: o.N%2 == 0, WriteLJH3: o.N%2 == 1}
		var err error
		alive := r.call(o.Op, func() error { err = sc.WriteControl(&cfg, &ok); return err })
		if alive && err == nil {
			r.writing = true
		}
		return alive
	case "wpause":
		cfg := dastard.WriteControlConfig{Request: "PAUSE"}
		return r.call(o.Op, func() error { return sc.WriteControl(&cfg, &ok) })
	case "wunpause":
		cfg := dastard.WriteControlConfig{Request: "UNPAUSE next"}
		return r.call(o.Op, func() error { return sc.WriteControl(&cfg, &ok) })
	case "wstop":
		r.undam() // closing a data file waits for its writer goroutine
		cfg := dastard.WriteControlConfig{Request: "STOP"}
		r.writing = false
		return r.call(o.Op, func() error { return sc.WriteControl(&cfg, &ok) })
	case "rcomment":
		// N > 1: repeated reads spread over a few block periods (the requests themselves never wait for
		// the core loop, so some of them overlap with block processing)
		zero := 0
		var reply string
		for i := 1; i < o.N; i++ {
			if !r.call(o.Op, func() error { return sc.ReadComment(&zero, &reply) }) {
				return false
			}
			time.Sleep(time.Millisecond)
		}
		return r.call(o.Op, func() error { return sc.ReadComment(&zero, &reply) })
	case "wcomment":
		c := "a comment"
		return r.call(o.Op, func() error { return sc.WriteComment(&c, &ok) })
	case "label":
		cfg := dastard.StateLabelConfig{Label: fmt.Sprintf("L%d", o.N), WaitForError: true}
		return r.call(o.Op, func() error { return sc.SetExperimentStateLabel(&cfg, &ok) })
	case "labelnw":
		// N labels with WaitForError=false (the request replies at once, a helper goroutine takes the label
		// through the core loop) back to back, then one that waits.  Only while writing is active: a label
		// that cannot be set makes the helper goroutine panic, by design.  Afterwards the helpers are given
		// time to finish (a request of the client queues behind them).
		n := o.N
		if n <= 0 {
			n = 3
		}
		if !r.writing {
			n = 0
		}
		for k := 0; k < n; k++ {
			cfg := dastard.StateLabelConfig{Label: fmt.Sprintf("N%d_%d", o.N, k), WaitForError: false}
			if !r.call(o.Op, func() error { return sc.SetExperimentStateLabel(&cfg, &ok) }) {
				return false
			}
		}
		cfg := dastard.StateLabelConfig{Label: fmt.Sprintf("W%d", o.N), WaitForError: true}
		if !r.call(o.Op, func() error { return sc.SetExperimentStateLabel(&cfg, &ok) }) {
			return false
		}
		time.Sleep(20 * time.Millisecond)
		_, alive := r.blocks()
		return alive
	case "store":
		n := o.N
		if n <= 0 {
			n = 20
		}
		var reply string
		return r.call(o.Op, func() error { return sc.StoreRawDataBlock(n, &reply) })
	case "storeseq":
		// N requests, each issued as soon as the previous one has been filled (a request is refused while
		// an archive is being filled: ask until accepted), of equal, then shrinking sizes: the writer
		// goroutine of request k is still at work when request k+1 starts to be filled
		size := 3000
		if r.s.Source == "abaco" {
			size = 30
		}
		n := o.N
		if n <= 0 {
			n = 3
		}
		for k := 0; k < n; k++ {
			if k >= 2 {
				size = size * 2 / 3
			}
			deadline := time.Now().Add(10 * time.Second)
			for {
				var reply string
				var err error
				sz := size
				if !r.call(o.Op, func() error { err = sc.StoreRawDataBlock(sz, &reply); return nil }) {
					return false
				}
				if err == nil {
					break
				}
				if r.done != nil {
					select {
					case <-r.done:
						return true
					default:
					}
				}
				if time.Now().After(deadline) {
					r.fail("archive request %d never accepted: %v", k, err)
					return false
				}
				pause := 500 * time.Microsecond
				if r.s.Source == "abaco" {
					pause = 10 * time.Millisecond // 50 ms blocks
				} else if r.h.Blocks != nil {
					pause = 2 * time.Millisecond // conformance: every attempt is a handful of log events
				}
				time.Sleep(pause)
			}
		}
		return true
	case "stall":
		// one slow request: the core loop is busy for N ms while the producer keeps producing
		d := time.Duration(o.N) * time.Millisecond
		if d <= 0 {
			d = 400 * time.Millisecond
		}
		return r.call(o.Op, func() error { return r.ctl.VerifC17Stall(d) })
	case "emt":
		// edge-multi triggering (records of 400 samples, 100 pre-trigger), level N
		so := dastard.SizeObject{Nsamp: 400, Npre: 100}
		if !r.call("lengths", func() error { return sc.ConfigurePulseLengths(so, &ok) }) {
			return false
		}
		level := int32(o.N)
		if level <= 0 {
			level = 300
		}
		fts := dastard.FullTriggerState{ChannelIndices: all}
		fts.EdgeMulti = true
		fts.EdgeMultiLevel = level
		fts.EdgeMultiVerifyNMonotone = 1
		return r.call(o.Op, func() error { return sc.ConfigureTriggers(&fts, &ok) })
	case "mix":
		// N ConfigureMixFraction requests for two feedback channels (Lancero only), spread over a few block
		// periods by plain sleeps: these requests go to the source directly, and nothing in between makes
		// the client wait for the core loop (that would order the client after the blocks assembled so far)
		if r.s.Source != "lancero" {
			return true
		}
		n := o.N
		if n <= 0 {
			n = 1
		}
		for k := 0; k < n; k++ {
			f := []float64{0.5, 0.25, 1.0, 0.0}[k%4]
			mfo := dastard.MixFractionObject{ChannelIndices: []int{1, 3}, MixFractions: []float64{f, f}}
			if !r.call(o.Op, func() error { return sc.ConfigureMixFraction(&mfo, &ok) }) {
				return false
			}
			// wait 35 ms without creating a runtime timer (see "idle")
			for t0 := time.Now(); time.Since(t0) < 35*time.Millisecond; {
				runtime.Gosched()
			}
		}
		return true
	case "biglen":
		// records of 2016 bytes (use with simpulse, pulse 2000: four auto-triggered records per block): a data
		// file's 64 kB buffer then overflows after 8 blocks, between two of the flushes that the core loop
		// requests every 20 blocks, i.e. in the writer goroutine's own Write
		so := dastard.SizeObject{Nsamp: 1000, Npre: 250}
		return r.call(o.Op, func() error { return sc.ConfigurePulseLengths(so, &ok) })
	case "lengths":
		so := dastard.SizeObject{Nsamp: nsamp + 2*(o.N%2), Npre: npre}
		return r.call(o.Op, func() error { return sc.ConfigurePulseLengths(so, &ok) })
	case "sendall":
		d := ""
		return r.call(o.Op, func() error { return sc.SendAllStatus(&d, &ok) })
	case "wait":
		n := o.N
		if n <= 0 {
			n = 1
		}
		return r.waitBlocks(n)
	}
	r.fail("unknown op %q", o.Op)
	return true
}

// Ticks needed by the packet script of a scenario (every op may take a couple of reader ticks).
func ticksFor(s Scenario) int {
	t := 6
	for _, o := range s.Ops {
		t += 2
		if o.Op == "wait" {
			t += o.N
		}
		if o.Op == "idle" {
			t += 2 + o.N/50
		}
		if o.Op == "stall" {
			t += 12 + o.N/50
		}
		if o.Op == "storeseq" {
			t += 4 * (o.N + 3)
		}
	}
	return t
}

// Run executes the scenario in dir (a scratch directory: data files, raw-data archives, $HOME).
func Run(s Scenario, h Hooks, dir string, repo string) Outcome {
	Quiet()
	r := &runner{s: s, tags: map[string]bool{}, dir: dir, h: h}
	os.Setenv("TMPDIR", dir)
	os.Setenv("HOME", dir)
	os.MkdirAll(filepath.Join(dir, ".dastard"), 0o755)
	os.MkdirAll(filepath.Join(dir, "data"), 0o755)
	if s.GoPub {
		dastard.VerifC17GoPublishers() // only has an effect before the first control of the process
	}
	ctl, err := dastard.VerifC17NewControl(npre, nsamp)
	if err != nil {
		r.fail("control: %v", err)
		return r.out
	}
	r.ctl, r.sc = ctl, ctl.SC
	// RunClientUpdater sleeps 250 ms before it serves its channel (ZMQ slow-joiner workaround); let it get
	// there, otherwise the first messages of a run pile up in the channel and are handed over in one go
	startupOnce.Do(func() { time.Sleep(300 * time.Millisecond) })
	if h.Point != nil {
		dastard.VerifSetPointHook(h.Point)
		defer dastard.VerifSetPointHook(nil)
	}
	if h.Access != nil {
		dastard.VerifSetAccessHook(h.Access)
		defer dastard.VerifSetAccessHook(nil)
	}
	if err := r.start(repo, ticksFor(s)); err != nil {
		r.fail("start: %v", err)
		ctl.Close()
		return r.out
	}
	if r.runStarted != nil {
		r.runStarted()
	}
	if h.Started != nil {
		h.Started()
	}
	r.names = append([]string(nil), r.sc.ActiveSource.ChannelNames()...)
	alive := true
	for _, o := range s.Ops {
		if r.ended {
			break // nothing runs any more
		}
		if !r.op(o) {
			alive = false
			break
		}
	}
	if alive {
		n, ok := r.blocks()
		r.out.Blocks = n
		alive = ok
	}
	if r.release != nil {
		r.release()
	}
	r.undam()
	if alive {
		d := ""
		var ok bool
		r.call("stop", func() error { return r.sc.Stop(&d, &ok) })
	}
	ctl.Close()
	atomic.StoreInt32(&r.fast, 2)
	r.out.Names = r.names
	for t := range r.tags {
		r.out.Tags = append(r.out.Tags, t)
	}
	return r.out
}
