package scen

// Conformance logging: the verifAccess / verifPoint hooks record (goroutine, role, site) in one
// global order; Translate turns the record into the event vocabulary of coq/theories/C17/Model.v.
//
// The order of the record is consistent with happens-before because every release-type site
// (channel send, go statement, WaitGroup.Done, mutex unlock) is logged BEFORE the operation and
// every acquire-type site (receive, goroutine start, Wait, lock) AFTER it, and the logger itself is
// a critical section.

import (
	"fmt"
	"runtime"
	"strconv"
	"strings"
	"sync"
)

// RawEv is one hook call.
type RawEv struct {
	G      int64  `json:"g"`
	Role   string `json:"role"`   // reader asm asmw core worker arch rpc other
	Caller string `json:"caller"` // function that contains the call site
	Loc    string `json:"loc"`
	W      bool   `json:"w"`
	Point  bool   `json:"point,omitempty"`
}

// Logger collects the raw events of one run.
type Logger struct {
	mu     sync.Mutex
	evs    []RawEv
	blocks int // "sync:nextBlock" acquisitions by the core loop
}

func gid() int64 {
	var buf [64]byte
	n := runtime.Stack(buf[:], false)
	// "goroutine 123 [running]:"
	f := strings.Fields(string(buf[:n]))
	if len(f) >= 2 {
		if v, err := strconv.ParseInt(f[1], 10, 64); err == nil {
			return v
		}
	}
	return -1
}

func roleOf(fn string) string {
	switch {
	case strings.Contains(fn, "readerMainLoop"), strings.Contains(fn, "launchLanceroReader"),
		strings.Contains(fn, "TriangleSource).StartRun.func"), strings.Contains(fn, "SimPulseSource).StartRun.func"):
		return "reader"
	case strings.Contains(fn, "distributeData.func"):
		return "asmw"
	case strings.Contains(fn, ").getNextBlock.func"):
		return "asm"
	case strings.Contains(fn, "ProcessSegments.func"):
		return "worker"
	case strings.Contains(fn, "ArchiveDataBlock.func"):
		return "arch"
	case strings.HasSuffix(fn, "dastard.CoreLoop"):
		return "core"
	case strings.Contains(fn, "scen.(*runner)"), strings.HasSuffix(fn, "c17/scen.Run"):
		return "rpc"
	}
	return ""
}

// who returns the role of the calling goroutine (innermost matching frame from the bottom of the
// stack) and the function containing the hook's call site.
func who() (role, caller string) {
	pcs := make([]uintptr, 64)
	n := runtime.Callers(2, pcs)
	frames := runtime.CallersFrames(pcs[:n])
	var fns []string
	for {
		fr, more := frames.Next()
		fns = append(fns, fr.Function)
		if !more {
			break
		}
	}
	for i, fn := range fns {
		if strings.HasSuffix(fn, "dastard.verifAccess") || strings.HasSuffix(fn, "dastard.verifPoint") {
			if i+1 < len(fns) {
				caller = fns[i+1]
			}
			break
		}
	}
	role = "other"
	for i := len(fns) - 1; i >= 0; i-- {
		if r := roleOf(fns[i]); r != "" {
			role = r
			break
		}
	}
	return
}

func (l *Logger) add(loc string, w, point bool) {
	role, caller := who()
	g := gid()
	l.mu.Lock()
	l.evs = append(l.evs, RawEv{G: g, Role: role, Caller: caller, Loc: loc, W: w, Point: point})
	if role == "core" && loc == "sync:nextBlock" && !w {
		l.blocks++
	}
	l.mu.Unlock()
}

// Access / Point are the hooks.
func (l *Logger) Access(loc string, w bool) { l.add(loc, w, false) }
func (l *Logger) Point(name string) {
	switch name {
	case "rpc:before-send", "core:after-request":
		l.add(name, false, true)
	}
}

// Started is logged when Start has returned: from here on the run is the one the model describes.
func (l *Logger) Started() { l.add("client:started", false, true) }

// ClientReturn is logged by the client goroutine when a request has returned.
func (l *Logger) ClientReturn() { l.add("client:return", false, true) }

// Blocks is the number of blocks the core loop has received so far.
func (l *Logger) Blocks() int {
	l.mu.Lock()
	defer l.mu.Unlock()
	return l.blocks
}

// Events returns the record.
func (l *Logger) Events() []RawEv {
	l.mu.Lock()
	defer l.mu.Unlock()
	return append([]RawEv(nil), l.evs...)
}

// ---- translation into model events ----

type tr struct {
	n        int
	idx      map[string]int // channel name -> channel index
	out      []string
	rk       int // buffers messages / blocks sent by the reader
	ak       int // buffers messages received by the assembler
	agos     int // getNextBlock goroutines started
	cgos     int
	ablk     int // blocks sent by the assembler
	ck       int // blocks received by the core loop (current block = ck-1)
	ph       int
	forked   []int // workers forked in the current phase
	aforked  []int
	reqSent  int
	reqTaken int
	resSent  int // replies released by the core loop
	resTaken int
	pending  bool
	ago      int
	aj       int
	xidx     map[int64]int
	xnext    int
	simple   bool // simulated source: the producer sends blocks itself
	started  bool // Start has returned
	unknown  []string
}

func (t *tr) e(format string, a ...interface{}) { t.out = append(t.out, fmt.Sprintf(format, a...)) }

func (t *tr) chanIdx(name string) (int, bool) {
	i, ok := t.idx[name]
	return i, ok
}

// Translate renders the raw record as a list of Coq event terms (Run.v's compact constructors).
// names are the channel names in channel order; simple = simulated source (no reader/assembler split).
func Translate(evs []RawEv, names []string, simple bool) (terms []string, unknown []string) {
	t := &tr{n: len(names), idx: map[string]int{}, xidx: map[int64]int{}, simple: simple}
	for i, nm := range names {
		t.idx[nm] = i
	}
	for _, ev := range evs {
		t.one(ev)
	}
	return t.out, t.unknown
}

func (t *tr) allSegs(th string, k int, kind string) {
	for i := 0; i < t.n; i++ {
		t.e("%s %s (lSeg %d %d)", kind, th, k, i)
	}
}

func (t *tr) one(ev RawEv) {
	switch ev.Role {
	case "reader":
		switch {
		case ev.Loc == "abaco:distributePackets":
			t.e("w_ tR lETrig")
			t.e("w_ tR lTiming")
			t.e("ar_ tR lNext")
		case ev.Loc == "abaco:extractExternalTriggers":
			t.e("w_ tR lETrig")
			t.e("r_ tR lTiming")
		case ev.Loc == "abaco:lastread":
			t.e("w_ tR lTiming")
		case ev.Loc == "sync:buffersChan" && ev.W:
			t.allSegs("tR", t.rk, "w_")
			t.e("w_ tR (lHdr %d)", t.rk)
			t.e("rel_ tR (mBuf %d)", t.rk)
			t.rk++
		case ev.Loc == "sync:nextBlock" && ev.W: // simulated sources: the producer sends the block itself
			t.allSegs("tR", t.rk, "w_")
			t.e("w_ tR (lHdr %d)", t.rk)
			t.e("rel_ tR (mBlk %d)", t.rk)
			t.rk++
		default:
			t.unknown = append(t.unknown, ev.Role+":"+ev.Loc)
		}
	case "asm":
		switch {
		case ev.Loc == "sync:go:getNextBlock" && !ev.W:
			t.e("acq_ tA (mGo %d)", t.agos)
			t.agos++
		case ev.Loc == "sync:buffersChan" && !ev.W:
			t.e("acq_ tA (mBuf %d)", t.ak)
			t.ak++
			t.aforked = nil
		case ev.Loc == "abaco:blockhdr":
			t.e("w_ tA (lHdr %d)", t.ak-1)
		case ev.Loc == "abaco:extractExternalTriggers":
			t.e("w_ tA lETrig")
			t.e("r_ tA lTiming")
		case ev.Loc == "nextFrameNum" && !ev.W:
			t.e("ar_ tA lNext")
		case ev.Loc == "nextFrameNum" && ev.W:
			t.e("aw_ tA lNext")
		case ev.Loc == "sync:wg:distributeData":
			for _, i := range t.aforked {
				t.e("acq_ tA (mADone %d %d)", t.ak-1, i)
			}
		case ev.Loc == "sync:nextBlock" && ev.W:
			t.e("rel_ tA (mBlk %d)", t.ablk)
			t.ablk++
		default:
			if i, ok := t.chanIdx(ev.Loc); ok && ev.W {
				t.e("rel_ tA (mAFork %d %d)", t.ak-1, i)
				t.aforked = append(t.aforked, i)
			} else {
				t.unknown = append(t.unknown, ev.Role+":"+ev.Loc)
			}
		}
	case "asmw":
		if i, ok := t.chanIdx(ev.Loc); ok {
			if !ev.W {
				t.e("acq_ (tAW %d) (mAFork %d %d)", i, t.ak-1, i)
			} else {
				t.e("w_ (tAW %d) (lSeg %d %d)", i, t.ak-1, i)
				t.e("rel_ (tAW %d) (mADone %d %d)", i, t.ak-1, i)
			}
		} else {
			t.unknown = append(t.unknown, ev.Role+":"+ev.Loc)
		}
	case "core":
		k := t.ck - 1
		switch {
		case ev.Loc == "sync:go:getNextBlock" && ev.W:
			t.e("rel_ tC (mGo %d)", t.cgos)
			t.cgos++
		case ev.Loc == "sync:nextBlock" && !ev.W:
			t.e("acq_ tC (mBlk %d)", t.ck)
			t.e("r_ tC (lHdr %d)", t.ck)
			t.ck++
			t.ph = 0
			t.forked = nil
		case ev.Loc == "arch" && !ev.W:
			t.e("r_ tC lArch")
		case ev.Loc == "arch" && ev.W:
			t.e("r_ tC lArch")
			t.e("w_ tC lArch")
		case ev.Loc == "arch:fill":
			t.e("r_ tC lArch")
			t.allSegs("tC", k, "r_")
			t.e("w_ tC lArch")
			t.e("w_ tC (lSnap %d)", t.aj)
		case ev.Loc == "sync:archive:complete" && ev.W:
			t.e("w_ tC lArch")
			t.e("w_ tC (lSnap %d)", t.aj)
			t.e("rel_ tC (mSnap %d)", t.aj)
			t.aj++
		case ev.Loc == "sync:go:archive" && ev.W:
			t.e("rel_ tC (mXGo %d)", t.ago)
			t.ago++
		case ev.Loc == "sync:wg:ProcessSegments":
			for _, i := range t.forked {
				t.e("acq_ tC (mD %d %d %d)", t.ph, k, i)
			}
			t.ph++
			t.forked = nil
		case ev.Loc == "procs" && !ev.W: // ComputeFullTriggerState inside a request closure
			for i := 0; i < t.n; i++ {
				t.e("r_ tC (lProc %d)", i)
			}
		case ev.Loc == "procs":
			for i := 0; i < t.n; i++ {
				t.e("w_ tC (lProc %d)", i)
			}
			t.e("r_ tC (lHdr %d)", k)
			t.e("r_ tC lWs")
			t.e("r_ tC lWsPaused")
		case ev.Loc == "sync:ws" && !ev.W:
			t.e("acq_ tC mWs")
		case ev.Loc == "sync:ws" && ev.W:
			if strings.Contains(ev.Caller, "ComputeState") {
				t.e("r_ tC lWs")
				t.e("r_ tC lWsCnt")
				t.e("r_ tC lWsPaused")
			} else {
				t.e("w_ tC lWsCnt")
			}
			t.e("rel_ tC mWs")
		case ev.Loc == "sync:queuedRequests":
			t.e("acq_ tC (mReq %d)", t.reqTaken)
			t.reqTaken++
		case ev.Loc == "core:after-request":
			if t.resSent < t.reqTaken {
				t.e("r_ tC lStatus")
				t.e("rel_ tC (mRes %d)", t.resSent)
				t.resSent++
			}
		default:
			if i, ok := t.chanIdx(ev.Loc); ok && ev.W {
				t.e("rel_ tC (mF %d %d %d)", t.ph, k, i)
				t.forked = append(t.forked, i)
			} else {
				t.unknown = append(t.unknown, ev.Role+":"+ev.Loc)
			}
		}
	case "worker":
		k := t.ck - 1
		if i, ok := t.chanIdx(ev.Loc); ok {
			if !ev.W {
				t.e("acq_ (tW %d) (mF %d %d %d)", i, t.ph, k, i)
			} else {
				t.e("r_ (tW %d) (lSeg %d %d)", i, k, i)
				t.e("w_ (tW %d) (lSeg %d %d)", i, k, i)
				t.e("w_ (tW %d) (lProc %d)", i, i)
				t.e("rel_ (tW %d) (mD %d %d %d)", i, t.ph, k, i)
			}
		} else {
			t.unknown = append(t.unknown, ev.Role+":"+ev.Loc)
		}
	case "arch":
		j, ok := t.xidx[ev.G]
		if !ok {
			j = t.xnext
			t.xnext++
			t.xidx[ev.G] = j
		}
		switch {
		case ev.Loc == "sync:go:archive" && !ev.W:
			t.e("acq_ (tX %d) (mXGo %d)", j, j)
		case ev.Loc == "sync:archive:complete" && !ev.W:
			t.e("acq_ (tX %d) (mSnap %d)", j, j)
			t.e("r_ (tX %d) (lSnap %d)", j, j)
		default:
			t.unknown = append(t.unknown, ev.Role+":"+ev.Loc)
		}
	case "rpc":
		switch {
		case ev.Loc == "rpc:before-send":
			t.e("r_ tQ lStatus")
			t.e("w_ tQ lStatus")
			t.e("rel_ tQ (mReq %d)", t.reqSent)
			t.reqSent++
			t.pending = true
		case ev.Loc == "client:started":
			t.started = true
		case ev.Loc == "procs" && !ev.W:
			// ComputeFullTriggerState on the client's thread: Start does this (before the run the model
			// describes: PrepareRun leaves the processors in a state the workers only read); afterwards
			// it is an access like any other
			if t.started {
				for i := 0; i < t.n; i++ {
					t.e("r_ tQ (lProc %d)", i)
				}
			}
		case ev.Loc == "client:return":
			if t.pending {
				if t.resSent < t.reqSent { // the core loop's own record of the reply comes later
					t.e("r_ tC lStatus")
					t.e("rel_ tC (mRes %d)", t.resSent)
					t.resSent++
				}
				t.e("acq_ tQ (mRes %d)", t.resTaken)
				t.resTaken++
				t.e("r_ tQ lStatus")
				t.e("w_ tQ lStatus")
				t.pending = false
			}
		case ev.Loc == "sync:ws" && !ev.W:
			t.e("r_ tQ lStatus")
			t.e("acq_ tQ mWs")
		case ev.Loc == "sync:ws" && ev.W:
			t.e("r_ tQ lWs")
			t.e("r_ tQ lWsCnt")
			t.e("r_ tQ lWsPaused")
			t.e("rel_ tQ mWs")
		case ev.Loc == "abaco:distributePackets", ev.Loc == "abaco:extractExternalTriggers", ev.Loc == "arch", ev.Loc == "abaco:lastread":
			// Sample() / Stop() on the client's goroutine, before the source's goroutines exist or after
			// they are gone: outside the run that the model describes
		default:
			if _, ok := t.chanIdx(ev.Loc); !ok {
				t.unknown = append(t.unknown, ev.Role+":"+ev.Loc)
			}
		}
	default:
		t.unknown = append(t.unknown, ev.Role+":"+ev.Loc+"@"+ev.Caller)
	}
}
