// racer: runs ONE C17 scenario in a process built with `go build -race`.  The race detector's
// reports go to the files named by GORACE=log_path=...; this program only writes the outcome of the
// run.  Perturbation: at every verifPoint / verifAccess site a pure function of (seed, site name)
// decides between nothing, a Gosched and a short sleep - no shared state is touched, so the hooks
// add no synchronisation of their own that could hide a race.
package main

import (
	"encoding/json"
	"fmt"
	"os"
	"runtime"
	"time"

	"verifharness/cmd/c17/scen"
)

func mix(seed uint64, s string) uint64 {
	h := seed*0x9E3779B97F4A7C15 + 0xcbf29ce484222325
	for i := 0; i < len(s); i++ {
		h ^= uint64(s[i])
		h *= 0x100000001b3
	}
	h ^= h >> 29
	h *= 0xBF58476D1CE4E5B9
	h ^= h >> 32
	return h
}

func perturb(seed uint64, name string) {
	switch mix(seed, name) % 8 {
	case 0:
		runtime.Gosched()
	case 1:
		time.Sleep(30 * time.Microsecond)
	case 2:
		time.Sleep(400 * time.Microsecond)
	}
}

func main() {
	if len(os.Args) != 5 {
		fmt.Fprintln(os.Stderr, "usage: racer scenario.json outcome.json scratchdir repo")
		os.Exit(2)
	}
	b, err := os.ReadFile(os.Args[1])
	if err != nil {
		fmt.Fprintln(os.Stderr, err)
		os.Exit(2)
	}
	var s scen.Scenario
	if err := json.Unmarshal(b, &s); err != nil {
		fmt.Fprintln(os.Stderr, err)
		os.Exit(2)
	}
	seed := s.Seed
	h := scen.Hooks{
		Point:  func(name string) { perturb(seed, name) },
		Access: func(loc string, w bool) { perturb(seed, loc) },
	}
	out := scen.Run(s, h, os.Args[3], os.Args[4])
	// let goroutines that outlive the source (archive writer, publishers, updater) touch what they touch
	time.Sleep(50 * time.Millisecond)
	ob, _ := json.Marshal(out)
	if err := os.WriteFile(os.Args[2], ob, 0o644); err != nil {
		fmt.Fprintln(os.Stderr, err)
		os.Exit(2)
	}
}
