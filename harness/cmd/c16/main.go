// C16 harness: status replay (real RunClientUpdater behind a ZMQ SUB socket), configuration persistence
// (files written by the real saveState, read back by the real start-up sequence of cmd/dastard) and
// crash points (the configuration directory at every verifPoint of saveState).
package main

import (
	"encoding/json"
	"fmt"
	"os"
	"path/filepath"
	"sort"
	"strings"

	"verifharness/lib"
)

type Op struct {
	Op    string          `json:"op"` // U update, SA sendall, W wait for the updater's own save, S save (mode direct), R start a second dastard on the directory, K kill during the last save and start again (mode direct), SAQ SendAllStatus through the real RPC method while the updater's queue is full (mode hist), SRC start a source / start writing / stop the source through the real SourceControl (mode hist; trigger requests for channels 0-1 then 2-3; N odd: WriteControl Stop first; N>=2: a third trigger request for channel 1)
	Tag   string          `json:"tag,omitempty"`
	Typed bool            `json:"typed,omitempty"`
	Val   json.RawMessage `json:"val,omitempty"`
	N     int64           `json:"n,omitempty"` // K: the state of the last save's trace at which dastard is killed
}

type Case struct {
	ID   int64   `json:"id"`
	Mode string  `json:"mode"` // hist | direct
	Dir  dirSpec `json:"dir"`
	Ops  []Op    `json:"ops"`
}

var scratchRoot string

func runCase(c Case) lib.Result {
	res := lib.Result{ID: c.ID, Hash: lib.Hash(struct {
		M string
		D dirSpec
		O []Op
	}{c.Mode, c.Dir, c.Ops})}
	scratch := filepath.Join(scratchRoot, fmt.Sprintf("c16_%d_case%d", os.Getpid(), c.ID))
	defer os.RemoveAll(scratch)
	var term string
	var impl interface{}
	var nt bool
	var tags map[string]bool
	for attempt := 0; ; attempt++ {
		tags = map[string]bool{"mode-" + c.Mode: true}
		vals = newInterner()
		os.RemoveAll(scratch)
		if err := os.MkdirAll(scratch, 0o775); err != nil {
			panic(err)
		}
		if c.Mode == "direct" {
			term, impl, nt = runDirect(c, scratch, tags)
		} else {
			term, impl, nt = runHist(c, scratch, tags)
		}
		if !(tags["slow-run"] || tags["save-during-extern"]) || attempt >= 2 {
			break
		}
	}
	classify(c, tags)
	res.Term = term
	res.Impl = map[string]interface{}{"observed": impl, "values": vals.table()}
	res.NonTrivial = nt || tags["sendall-after-repeat"]
	for t := range tags {
		res.Tags = append(res.Tags, t)
	}
	sort.Strings(res.Tags)
	return res
}

// classify adds tags describing the input (for the evidence's distribution report).
func classify(c Case, tags map[string]bool) {
	seen := map[string]int{}
	lastVal := map[string]string{}
	repeats := false
	for _, o := range c.Ops {
		switch o.Op {
		case "U":
			seen[o.Tag]++
			if v, ok := lastVal[o.Tag]; ok {
				if v == string(o.Val) {
					tags["unchanged-value"] = true
				} else {
					tags["changed-value"] = true
				}
				repeats = true
			}
			lastVal[o.Tag] = string(o.Val)
			if o.Typed {
				tags["typed-structure"] = true
			}
			switch strings.ToLower(o.Tag) {
			case "channelnames", "alive", "triggerrate", "numberwritten", "tesmap", "externaltrigger":
				tags["nosave-topic"] = true
			case "newdastard":
				tags["event-tag"] = true
			case "currenttime", "___1", "___2", "___3", "___4", "___5":
				tags["comment-key-as-tag"] = true
			}
		case "SA":
			tags["sendall"] = true
			if repeats {
				tags["sendall-after-repeat"] = true
			}
			if len(seen) == 0 {
				tags["sendall-on-empty"] = true
			}
		case "W":
			tags["wait-for-save"] = true
		case "S":
			tags["direct-save"] = true
		case "R":
			tags["restart-op"] = true
		case "K":
			tags["kill-op"] = true
		case "SRC":
			tags["sourcecontrol-op"] = true
		case "SAQ":
			tags["sendall-via-rpc-method"] = true
			tags["sendall"] = true
		}
	}
	if c.Dir.Init == nil {
		tags["initial-file-empty"] = true
	}
	if c.Dir.Bak != nil {
		tags["backup-present"] = true
	}
	if c.Dir.TmpLeft != "" {
		tags["tmp-left-over"] = true
	}
	if c.Dir.MainMissing {
		tags["main-missing"] = true
	}
	if c.Dir.TmpIsDir {
		tags["tmp-is-directory"] = true
	}
	if c.Dir.MainSymlink {
		tags["main-is-symlink"] = true
	}
	if c.Dir.BakIsDir {
		tags["bak-is-directory"] = true
	}
}

func main() {
	h := lib.Harness{
		Gen: gen,
		RunCase: func(raw json.RawMessage) (lib.Result, error) {
			var c Case
			if err := json.Unmarshal(raw, &c); err != nil {
				return lib.Result{}, err
			}
			return runCase(c), nil
		},
		Header:   "From Coq Require Import String.\nFrom Dastard Require Import Common.ZX Common.CaseLib C16.Model C16.Run.\nOpen Scope string_scope.",
		Verdict:  "verdict",
		PerShard: 25,
		Isolate:  true,
		Chunk:    4,
		Workers:  32,
	}
	// scratch space next to the input/output of this invocation (under /verif/build/run/...)
	scratchRoot = "."
	for i, a := range os.Args {
		if (a == "-out" || a == "-in") && i+1 < len(os.Args) {
			p := os.Args[i+1]
			if a == "-in" || strings.HasSuffix(p, ".out") {
				p = filepath.Dir(p)
			}
			scratchRoot, _ = filepath.Abs(p)
			if a == "-out" {
				break
			}
		}
	}
	cleanup := func() {}
	if len(os.Args) > 1 && os.Args[1] == "run" {
		// the real start-up sequence lives in package main of cmd/dastard: build it once for this run
		os.MkdirAll(scratchRoot, 0o775)
		bin, err := buildDastard(scratchRoot)
		if err != nil {
			fmt.Fprintln(os.Stderr, err)
			os.Exit(2)
		}
		os.Setenv("VERIF_C16_DASTARD", bin)
		cleanup = func() { os.Remove(bin) }
	}
	h.Main()
	cleanup()
}
