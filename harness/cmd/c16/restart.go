// The next start-up, end to end: the real dastard program (cmd/dastard built with the tag verif, ports
// taken from the environment) is started on a copy of the configuration directory; what RunRPCServer and
// PrepareRun restored is read from the status messages it publishes.
package main

import (
	"bytes"
	"encoding/json"
	"fmt"
	"net"
	"net/rpc"
	"net/rpc/jsonrpc"
	"os"
	"os/exec"
	"path/filepath"
	"sort"
	"strings"
	"time"

	"github.com/usnistgov/dastard"
)

var restorable = []string{"abaco", "lancero", "roach", "simpulse", "status", "tesmapfile", "triangle", "trigger", "writing"}

const sentinelChannels = 16

var mapFiles = map[string]string{
	"maps/m1.txt": "spacing: 520\n1 290 -3470 c0r0\n3 290 -4510 c0r1\n",
	"maps/m2.txt": "spacing: 100\n1 0 0 a\n3 0 100 b\n5 0 200 c\n",
	"maps/m3.txt": "spacing: 7\n1 5 5 only\n",
}

func freePortBlock(n int) int {
	for i := 0; i < 400; i++ {
		base := 45000 + ((os.Getpid()*7+portCursor)%800)*24 // a range of its own, away from the updaters' ports
		portCursor++
		ok := true
		for k := 0; k < n && ok; k++ {
			l, err := net.Listen("tcp", fmt.Sprintf(":%d", base+k))
			if err != nil {
				ok = false
			} else {
				l.Close()
			}
		}
		if ok {
			return base
		}
	}
	panic("no free block of TCP ports found")
}

func sortedUniqueInts(xs []int) []int {
	seen := map[int]bool{}
	out := []int{}
	for _, x := range xs {
		if !seen[x] {
			seen[x] = true
			out = append(out, x)
		}
	}
	sort.Ints(out)
	return out
}

func sortedUniqueStrings(xs []string) []string {
	seen := map[string]bool{}
	out := []string{}
	for _, x := range xs {
		if !seen[x] {
			seen[x] = true
			out = append(out, x)
		}
	}
	sort.Strings(out)
	return out
}

// restoreView: the part of a persisted structure that a start-up can give back whatever the hardware:
// the fields dastard overwrites with what it finds on the machine are left out, the lists it sorts are sorted.
func restoreView(key string, js string, channels map[int]bool) (string, map[int]bool, error) {
	if key == "trigger" {
		// either the list dastard publishes or the canonical table
		t, err := parseTriggerTable(js)
		if err != nil {
			return "", nil, err
		}
		pc := map[int]string{}
		named := map[int]bool{}
		for c, ts := range t {
			ts.EdgeMulti = false
			if c >= 0 && c < sentinelChannels && (channels == nil || channels[c]) {
				pc[c] = mustJSON(ts)
				named[c] = true
			}
		}
		return mustJSON(pc), named, nil
	}
	z := typedZero(key)
	if err := json.Unmarshal([]byte(js), z); err != nil {
		return "", nil, err
	}
	switch x := z.(type) {
	case *dastard.LanceroSourceConfig:
		x.DastardOutput = dastard.LanceroDastardOutputJSON{}
	case *dastard.AbacoSourceConfig:
		x.AvailableCards = nil
		x.ActiveCards = sortedUniqueInts(x.ActiveCards)
		x.HostPortUDP = sortedUniqueStrings(x.HostPortUDP)
	case *dastard.ServerStatus:
		return mustJSON(project(key, x)), nil, nil
	case *dastard.WritingState:
		return mustJSON(project(key, x)), nil, nil
	}
	return mustJSON(z), nil, nil
}

type restartResult struct {
	Err  string
	Tags map[string]string // tag -> body of the last message of that tag before the sentinel
	Trig string            // body of the TRIGGER message after the triangle source was started
}

func call(c *rpc.Client, method string, arg interface{}, reply interface{}, timeout time.Duration) error {
	done := c.Go(method, arg, reply, make(chan *rpc.Call, 1))
	select {
	case r := <-done.Done:
		return r.Error
	case <-time.After(timeout):
		return fmt.Errorf("%s: no reply within %v", method, timeout)
	}
}

func runRestart(scratch string, s Snap) restartResult {
	bin, err := dastardBinary()
	if err != nil {
		panic(err)
	}
	home := filepath.Join(scratch, "restart")
	os.RemoveAll(home)
	s.materialize(filepath.Join(home, ".dastard"))
	for name, content := range mapFiles {
		p := filepath.Join(home, name)
		os.MkdirAll(filepath.Dir(p), 0o775)
		if err := os.WriteFile(p, []byte(content), 0o664); err != nil {
			panic(err)
		}
	}
	defer os.RemoveAll(home)
	writeDecoys(home) // dastard is started from a directory that holds other files named config.*
	base := freePortBlock(5)
	cmd := exec.Command(bin)
	cmd.Dir = home
	cmd.Env = append([]string{"HOME=" + home, "DASTARD_VERIF_C16=ports", fmt.Sprintf("DASTARD_VERIF_C16_PORT=%d", base), "PATH=" + os.Getenv("PATH")}, decoyEnv()...)
	var stderr bytes.Buffer
	cmd.Stdout = nil
	cmd.Stderr = &stderr
	if err := cmd.Start(); err != nil {
		panic(err)
	}
	exited := make(chan error, 1)
	go func() { exited <- cmd.Wait() }()
	defer func() {
		cmd.Process.Kill()
		<-exited
	}()
	fail := func(format string, a ...interface{}) restartResult {
		return restartResult{Err: fmt.Sprintf(format, a...) + " | stderr: " + tail(stderr.String(), 600)}
	}

	// the RPC port opens once RunRPCServer has restored everything
	var conn net.Conn
	deadline := time.Now().Add(40 * time.Second)
	for {
		select {
		case e := <-exited:
			exited <- e
			return fail("dastard exited during start-up: %v", e)
		default:
		}
		conn, err = net.DialTimeout("tcp", fmt.Sprintf("127.0.0.1:%d", base), time.Second)
		if err == nil {
			break
		}
		if time.Now().After(deadline) {
			return fail("RPC port never opened: %v", err)
		}
		time.Sleep(20 * time.Millisecond)
	}
	client := jsonrpc.NewClient(conn)
	defer client.Close()
	sub := startSubscriber(base + 1)
	defer func() {
		close(sub.stop)
		<-sub.done
	}()

	var okay bool
	dummy := "dummy"
	// slow-joiner handshake: ask for everything until something arrives
	shake := time.Now().Add(30 * time.Second)
	for sub.count() == 0 {
		if err := call(client, "SourceControl.SendAllStatus", &dummy, &okay, 10*time.Second); err != nil {
			return fail("SendAllStatus: %v", err)
		}
		t := time.Now().Add(100 * time.Millisecond)
		for sub.count() == 0 && time.Now().Before(t) {
			time.Sleep(time.Millisecond)
		}
		if time.Now().After(shake) {
			return fail("no status message received")
		}
	}
	sentinel := func(k int) (int, error) {
		cfg := dastard.TriangleSourceConfig{Nchan: sentinelChannels, SampleRate: 10000, Min: 100, Max: dastard.RawType(200 + k)}
		// the reply is an error when a source is running; the TRIANGLE message is published all the same
		call(client, "SourceControl.ConfigureTriangleSource", &cfg, &okay, 10*time.Second)
		idx := sub.waitFor(0, "TRIANGLE", mustJSON(cfg), 20*time.Second)
		if idx < 0 {
			return -1, fmt.Errorf("sentinel %d not received", k)
		}
		return idx, nil
	}
	if err := call(client, "SourceControl.SendAllStatus", &dummy, &okay, 10*time.Second); err != nil {
		return fail("SendAllStatus: %v", err)
	}
	end, err := sentinel(1)
	if err != nil {
		return fail("%v", err)
	}
	res := restartResult{Tags: map[string]string{}}
	sub.mu.Lock()
	for _, m := range sub.msgs[:end] {
		res.Tags[m.tag] = m.body
	}
	sub.mu.Unlock()

	// the trigger settings are restored when a source starts (PrepareRun)
	name := "TRIANGLESOURCE"
	if err := call(client, "SourceControl.Start", &name, &okay, 30*time.Second); err != nil {
		return fail("Start: %v", err)
	}
	if err := call(client, "SourceControl.SendAllStatus", &dummy, &okay, 10*time.Second); err != nil {
		return fail("SendAllStatus: %v", err)
	}
	end2, err := sentinel(2)
	if err != nil {
		return fail("%v", err)
	}
	sub.mu.Lock()
	for _, m := range sub.msgs[end:end2] {
		if m.tag == "TRIGGER" {
			res.Trig = m.body
		}
		if m.tag == "STATUS" {
			res.Tags["STATUS-running"] = m.body
		}
	}
	sub.mu.Unlock()
	call(client, "SourceControl.Stop", &dummy, &okay, 10*time.Second)
	return res
}

// renderRestart compares what the restarted dastard reports with what the start-up sequence read from the
// file (entries), key by key, on the restore view; an agreeing key is rendered with the file's own text so
// that the Coq side compares like with like, a differing one with what was observed.
func renderRestart(scratch string, s Snap, tags map[string]bool) (string, interface{}) {
	st := runStartup(filepath.Join(scratch, "rs_home"), s)
	if st.Err != "" {
		tags["startup-error"] = true
		return "Rs " + coqPairs([]Entry{{K: "!startup", V: "failed"}}), map[string]string{"error": st.Err}
	}
	// another process may take a port between the probe and dastard's bind: a failed restart is tried again
	// on other ports (a dastard that cannot start at all fails every time)
	rr := runRestart(scratch, s)
	for attempt := 0; rr.Err != "" && attempt < 2; attempt++ {
		tags["restart-retried"] = true
		rr = runRestart(scratch, s)
	}
	var out []Entry
	detail := map[string]string{}
	if rr.Err != "" {
		tags["restart-error"] = true
		detail["error"] = rr.Err
	}
	for _, e := range st.Entries {
		if !containsStr(restorable, e.K) {
			continue
		}
		val := e.V
		if rr.Err != "" {
			val = "!restart failed"
		} else if e.K == "trigger" {
			want, named, err := restoreView(e.K, e.V, nil)
			var got string
			if err == nil {
				got, _, err = restoreView(e.K, rr.Trig, named)
			}
			if err != nil || got != want {
				val = "!restored: " + rr.Trig
				detail[e.K] = fmt.Sprintf("want %s got %s err %v", want, got, err)
			}
		} else {
			body, ok := rr.Tags[strings.ToUpper(e.K)]
			if !ok {
				val = "!no " + strings.ToUpper(e.K) + " message"
				detail[e.K] = val
			} else {
				want, _, err1 := restoreView(e.K, e.V, nil)
				got, _, err2 := restoreView(e.K, body, nil)
				if err1 != nil || err2 != nil || got != want {
					val = "!restored: " + body
					detail[e.K] = fmt.Sprintf("want %s got %s (%v %v)", want, got, err1, err2)
				}
			}
		}
		out = append(out, Entry{K: e.K, V: val})
	}
	tags["restart"] = true
	return "Rs " + coqPairs(out), map[string]interface{}{"restored": out, "detail": detail}
}

func containsStr(xs []string, x string) bool {
	for _, y := range xs {
		if x == y {
			return true
		}
	}
	return false
}
