// Drivers: the real RunClientUpdater behind a ZMQ SUB socket (mode "hist") and saveState called directly
// on a map (mode "direct"); both record the configuration directory at every save point.
package main

import (
	"encoding/json"
	"fmt"
	"net"
	"os"
	"os/exec"
	"path/filepath"
	"strconv"
	"strings"
	"sync"
	"time"

	"github.com/pebbe/zmq4"
	"github.com/spf13/viper"
	"github.com/usnistgov/dastard"
)

// The sentinel travels under a tag of its own whose lower-case form is on the no-save list: it is
// remembered and replayed like any topic, but it neither reaches the configuration file nor re-arms the
// delayed-save timer, so that whether a save is due depends on the case's own updates only.
const syncTag = "aLiVe"

var nosaveLower = map[string]bool{"channelnames": true, "alive": true, "triggerrate": true, "numberwritten": true,
	"newdastard": true, "tesmap": true, "externaltrigger": true}

// ---------- values ----------

// buildState turns the JSON value of a case into the Go value dastard would send under this tag.
func buildState(tag string, raw json.RawMessage, typed bool) interface{} {
	key := strings.ToLower(tag)
	if typed {
		if z := typedZero(key); z != nil {
			if err := json.Unmarshal(raw, z); err != nil {
				panic(fmt.Sprintf("bad typed value for %s: %v", tag, err))
			}
			switch x := z.(type) {
			case *dastard.ServerStatus:
				return *x // ClientUpdate{"STATUS", s.status}
			case *string:
				return *x // ClientUpdate{"TESMAPFILE", ms.Map.Filename}
			case *[]dastard.FullTriggerState:
				return *x // ClientUpdate{"TRIGGER", state}
			}
			return z // the source configurations and WRITING travel as pointers
		}
	}
	var g interface{}
	if err := json.Unmarshal(raw, &g); err != nil {
		panic(fmt.Sprintf("bad value for %s: %v", tag, err))
	}
	return probe{v: g, f: probeHook}
}

// probeHook is called by viper's YAML encoder in the middle of a write (see type probe).
func probeHook() {
	if r := currentRecorder; r != nil {
		r.hook("save:probe")
	}
}

// currentRecorder is the recorder of the case being run (nil while its directory is laid out).
var currentRecorder *recorder

// ---------- save recorder (installed as the verifPoint hook) ----------

type saveRec struct {
	pos   int // number of updates the updater had taken from its channel when the save began
	snaps map[int]Snap
	probe Snap // the directory while viper has its output file open and has not yet written it
	end   Snap
	begun time.Time
}

type recorder struct {
	dir   string
	mu    sync.Mutex
	sent  int
	saves []*saveRec
	cur   *saveRec
	cond  *sync.Cond
	// while dastard's own SourceControl queues messages the harness cannot count them: a save that begins
	// then has no known position (the case is run again)
	extern, externSave bool
	// parking the updater at the beginning of its next save (it runs the hook on its own goroutine)
	parkWanted bool
	parked     chan int      // receives the position of the save at which the updater is parked
	release    chan struct{} // closed by the harness to let the save go on
}

// requestPark arms the parking of the updater at its next save:0.
func (r *recorder) requestPark() {
	r.mu.Lock()
	r.parkWanted = true
	r.parked = make(chan int, 1)
	r.release = make(chan struct{})
	r.mu.Unlock()
}

// cancelPark withdraws a request that was not taken; false when the updater is (about to be) parked.
func (r *recorder) cancelPark() bool {
	r.mu.Lock()
	defer r.mu.Unlock()
	if r.parkWanted {
		r.parkWanted = false
		return true
	}
	return false
}

func (r *recorder) addSent(n int) {
	r.mu.Lock()
	r.sent += n
	r.mu.Unlock()
}

func newRecorder(dir string) *recorder {
	r := &recorder{dir: dir}
	r.cond = sync.NewCond(&r.mu)
	return r
}

func (r *recorder) hook(name string) {
	if !strings.HasPrefix(name, "save:") {
		return
	}
	switch what := name[5:]; what {
	case "probe":
		if r.cur != nil && r.cur.probe == nil {
			r.cur.probe = readDir(r.dir)
		}
	case "0":
		r.mu.Lock()
		r.cur = &saveRec{pos: r.sent - dastard.VerifC16Queued(), snaps: map[int]Snap{}, begun: time.Now()}
		if r.extern {
			r.externSave = true
		}
		park := r.parkWanted
		r.parkWanted = false
		parked, release := r.parked, r.release
		r.mu.Unlock()
		r.cur.snaps[0] = readDir(r.dir)
		if park {
			parked <- r.cur.pos
			<-release
		}
	case "end":
		if r.cur == nil {
			return
		}
		r.cur.end = readDir(r.dir)
		r.mu.Lock()
		r.saves = append(r.saves, r.cur)
		r.cur = nil
		r.cond.Broadcast()
		r.mu.Unlock()
	default:
		if n, err := strconv.Atoi(what); err == nil && r.cur != nil {
			r.cur.snaps[n] = readDir(r.dir)
		}
	}
}

// send puts one update on the updater's channel (never more than a few are in flight).
func (r *recorder) send(tag string, state interface{}) {
	deadline := time.Now().Add(30 * time.Second)
	for {
		r.mu.Lock()
		ok := dastard.VerifC16Send(tag, state)
		if ok {
			r.sent++
		}
		r.mu.Unlock()
		if ok {
			return
		}
		if time.Now().After(deadline) {
			panic("updater does not take messages from its channel")
		}
		time.Sleep(time.Millisecond)
	}
}

// ---------- rendering of one save ----------

type saveObs struct {
	Now    string   `json:"now"`
	Trace  []string `json:"trace"` // directory listings name=id
	Reads  []int64  `json:"reads"`
	Reach  int      `json:"reached"`
	Errors []string `json:"errors,omitempty"`
}

func currentTimeOf(b []byte) string {
	if es, ok := parseYAML(b); ok {
		for _, e := range es {
			if e.K == "currenttime" {
				return e.V
			}
		}
	}
	return `""`
}

// renderSave: the observed trace (directory before the save, after the open of the temporary file
// [constructed: the hooks sit between dastard's own calls, not inside viper], after each further step),
// and what the real start-up sequence reads from each element.
func renderSave(s *saveRec, tb *Table, scratch string, tags map[string]bool, d dirSpec) (string, saveObs, []Snap) {
	var trace []Snap
	reached := -1
	for n := 0; n <= 4; n++ {
		sn, ok := s.snaps[n]
		if !ok {
			break
		}
		reached = n
		if n == 1 && s.probe == nil {
			// no probe was in the configuration: the state between open and write is constructed
			mid := s.snaps[0].clone()
			mid[tmpName] = []byte{}
			trace = append(trace, mid)
		}
		trace = append(trace, sn)
		if n == 0 && s.probe != nil {
			trace = append(trace, s.probe) // observed: the output file is open (truncated), nothing written yet
			tags["write-observed-in-progress"] = true
		}
	}
	if len(trace) == 0 || !s.end.equal(trace[len(trace)-1]) {
		trace = append(trace, s.end) // a step that failed yet changed the directory: shown as an extra state
	}
	ob := saveObs{Reach: reached, Now: `""`}
	if s1, ok := s.snaps[1]; ok {
		ob.Now = currentTimeOf(s1[tmpName])
	}
	var dirs []string
	for i, sn := range trace {
		dirs = append(dirs, tb.coqDir(sn))
		ob.Trace = append(ob.Trace, tb.coqDir(sn))
		res := runStartup(filepath.Join(scratch, fmt.Sprintf("home%d", i)), sn)
		id := int64(-1)
		if res.Err != "" {
			ob.Errors = append(ob.Errors, fmt.Sprintf("state %d: %s", i, res.Err))
			tags["startup-error"] = true
		} else {
			id = tb.internEntries(res.Entries)
			if mb, ok := res.After[mainName]; !ok || len(mb) == 0 {
				tags["startup-read-empty-file"] = true
			}
		}
		ob.Reads = append(ob.Reads, id)
	}
	// Failing operations are an input of the model; the only ones the harness can arrange are the two
	// obstructions of the directory specification (a failure that is not arranged is a difference).
	faults := d.faults()
	if reached < 4 {
		tags["save-returned-early"] = true
	}
	term := fmt.Sprintf("Sv %s %s [%s] %s", coqVal(ob.Now), faults, strings.Join(dirs, ";"), coqZs(ob.Reads))
	return term, ob, trace
}

// faults: which operation of every save fails in this directory (Coq list of booleans)
func (d dirSpec) faults() string {
	switch {
	case d.TmpIsDir:
		return "[true]" // the open of the temporary file
	case d.BakIsDir:
		return "[false;false;true]" // the removal of the old backup
	}
	return "[]"
}

func coqZs(xs []int64) string {
	parts := make([]string, len(xs))
	for i, x := range xs {
		if x < 0 {
			parts[i] = fmt.Sprintf("(%d)", x)
		} else {
			parts[i] = fmt.Sprintf("%d", x)
		}
	}
	return "[" + strings.Join(parts, ";") + "]"
}

// ---------- the configuration directory of a case ----------

type dirSpec struct {
	Init        map[string]OpVal `json:"init,omitempty"` // entries of the main file (nil: empty file, as makeFileExist leaves it)
	Bak         map[string]OpVal `json:"bak,omitempty"`  // a backup from an earlier run
	TmpLeft     string           `json:"tmp,omitempty"`  // a left-over temporary file (raw text)
	Other       string           `json:"other,omitempty"`
	MainMissing bool             `json:"main_missing,omitempty"` // the main file disappears after start-up read it
	MainSymlink bool             `json:"main_symlink,omitempty"` // config.yaml is a symbolic link to a file in another directory
	TmpIsDir    bool             `json:"tmp_is_dir,omitempty"`   // a directory sits where the temporary file goes: the write fails
	BakIsDir    bool             `json:"bak_is_dir,omitempty"`   // a non-empty directory sits where the backup goes: its removal fails
}

type OpVal struct {
	Typed bool            `json:"typed,omitempty"`
	Val   json.RawMessage `json:"val"`
}

func writeYAML(path string, m map[string]OpVal) {
	if m == nil {
		if err := os.WriteFile(path, nil, 0o664); err != nil {
			panic(err)
		}
		return
	}
	v := viper.New()
	for k, ov := range m {
		v.Set(k, buildState(k, ov.Val, ov.Typed))
	}
	tmp := path + ".writing.yaml"
	if err := v.WriteConfigAs(tmp); err != nil {
		panic(err)
	}
	if err := os.Rename(tmp, path); err != nil {
		panic(err)
	}
}

// prepareDir lays the directory out and makes the process-wide viper read the main file, as setupViper does.
func prepareDir(dir string, d dirSpec) (cfg []Entry) {
	os.RemoveAll(dir)
	if err := os.MkdirAll(dir, 0o775); err != nil {
		panic(err)
	}
	mainp := filepath.Join(dir, mainName)
	if d.MainSymlink {
		other := filepath.Join(filepath.Dir(dir), "dotfiles")
		if err := os.MkdirAll(other, 0o775); err != nil {
			panic(err)
		}
		writeYAML(filepath.Join(other, "dastard-config.yaml"), d.Init)
		if err := os.Symlink(filepath.Join("..", "dotfiles", "dastard-config.yaml"), mainp); err != nil {
			panic(err)
		}
	} else {
		writeYAML(mainp, d.Init)
	}
	if d.Bak != nil {
		writeYAML(filepath.Join(dir, bakName), d.Bak)
	}
	if d.TmpLeft != "" {
		os.WriteFile(filepath.Join(dir, tmpName), []byte(d.TmpLeft), 0o664)
	}
	if d.Other != "" {
		os.WriteFile(filepath.Join(dir, "notes.txt"), []byte(d.Other), 0o664)
	}
	if d.TmpIsDir {
		os.Remove(filepath.Join(dir, tmpName))
		os.MkdirAll(filepath.Join(dir, tmpName), 0o775)
	}
	if d.BakIsDir {
		os.Remove(filepath.Join(dir, bakName))
		os.MkdirAll(filepath.Join(dir, bakName, "sub"), 0o775)
	}
	cfg = attachViper(dir)
	if d.MainMissing {
		os.Remove(mainp)
	}
	return cfg
}

// attachViper makes the process-wide viper a fresh instance that has read the main file, as in a dastard
// that has just started (setupViper).
func attachViper(dir string) []Entry {
	viper.Reset()
	viper.SetDefault("Verbose", false)
	viper.SetConfigFile(filepath.Join(dir, mainName))
	if err := viper.ReadInConfig(); err != nil {
		panic(fmt.Sprintf("cannot read the configuration: %v", err))
	}
	b, _ := os.ReadFile(filepath.Join(dir, mainName))
	var keys []string
	for _, k := range topLevelKeys(b) {
		if viper.InConfig(k) {
			keys = append(keys, k)
		}
	}
	return canonEntries(viper.GetViper(), keys)
}

// killAndRestart leaves the directory as a kill at the given point of the last save would (all regular
// files replaced by the snapshot), runs dastard's real start-up sequence on it in place, and attaches a
// fresh viper: a new dastard process as far as saveState can tell.
func killAndRestart(home, dir string, snap Snap) {
	if snap != nil {
		ents, _ := os.ReadDir(dir)
		for _, e := range ents {
			if !e.IsDir() {
				os.Remove(filepath.Join(dir, e.Name()))
			}
		}
		snap.materialize(dir)
	}
	bin, err := dastardBinary()
	if err != nil {
		panic(err)
	}
	writeDecoys(home)
	cmd := exec.Command(bin)
	cmd.Dir = home
	cmd.Env = append([]string{"HOME=" + home, "DASTARD_VERIF_C16=settings", "PATH=" + os.Getenv("PATH")}, decoyEnv()...)
	if out, err := cmd.CombinedOutput(); err != nil {
		panic(fmt.Sprintf("start-up in place failed: %v: %s", err, out))
	}
	attachViper(dir)
}

// ---------- mode "direct" ----------

func runDirect(c Case, scratch string, tags map[string]bool) (string, interface{}, bool) {
	home := filepath.Join(scratch, "home")
	dir := filepath.Join(home, ".dastard")
	cfg := prepareDir(dir, c.Dir)
	tb := newTable()
	dir0 := tb.coqDir(readDir(dir))
	rec := newRecorder(dir)
	currentRecorder = rec
	defer func() { currentRecorder = nil }()
	dastard.VerifSetPointHook(rec.hook)
	defer dastard.VerifSetPointHook(nil)
	last := map[string]interface{}{}
	var terms []string   // events of the current run
	var runs []string    // finished runs after the first: "(k, [events])"
	var first string     // events of the first run
	var kill int64 = -1  // kill point that started the current run (-1: the first run)
	var lastTrace []Snap // trace of the last save of the current run
	var impl []interface{}
	completed := 0
	closeRun := func() {
		h := "[" + strings.Join(terms, ";\n   ") + "]"
		if kill < 0 {
			first = h
		} else {
			runs = append(runs, fmt.Sprintf("(%d, %s)", kill, h))
		}
		terms = nil
	}
	for _, o := range c.Ops {
		switch o.Op {
		case "U":
			st := buildState(o.Tag, o.Val, o.Typed)
			last[o.Tag] = st
			terms = append(terms, fmt.Sprintf("Ux %s %s %s", coqStr(o.Tag), coqVal(canonSent(o.Tag, st)), coqVal(mustJSON(st))))
			impl = append(impl, "set")
		case "S":
			n := len(rec.saves)
			dastard.VerifC16SaveState(last)
			if len(rec.saves) != n+1 {
				panic("saveState did not reach its end point")
			}
			t, ob, tr := renderSave(rec.saves[n], tb, scratch, tags, c.Dir)
			lastTrace = tr
			terms = append(terms, t)
			impl = append(impl, ob)
			if ob.Reach == 4 {
				completed++
			}
		case "R":
			t, ob := renderRestart(scratch, readDir(dir), tags)
			terms = append(terms, t)
			impl = append(impl, ob)
		case "K":
			// dastard is killed at point N of its last save (or, without a save in this run, just killed)
			// and started again: memory is gone, the directory is what the kill left
			closeRun()
			k := int64(0)
			var snap Snap
			if len(lastTrace) > 0 {
				k = o.N % int64(len(lastTrace))
				snap = lastTrace[k]
			}
			killAndRestart(home, dir, snap)
			kill = k
			lastTrace = nil
			last = map[string]interface{}{}
			impl = append(impl, map[string]int64{"killed_at_trace_state": k})
			tags["kill-and-continue"] = true
		}
	}
	closeRun()
	term := fmt.Sprintf("mkK %s %s\n  %s\n  %s\n  [%s]", coqPairs(cfg), dir0, tb.coq(), first, strings.Join(runs, ";\n   "))
	return term, impl, completed > 0
}

// ---------- mode "hist": the real updater ----------

type received struct{ tag, body string }

type subscriber struct {
	mu   sync.Mutex
	msgs []received
	stop chan struct{}
	done chan struct{}
}

func startSubscriber(port int) *subscriber {
	s := &subscriber{stop: make(chan struct{}), done: make(chan struct{})}
	ready := make(chan error, 1)
	go func() {
		defer close(s.done)
		sock, err := zmq4.NewSocket(zmq4.SUB)
		if err != nil {
			ready <- err
			return
		}
		defer sock.Close()
		sock.SetLinger(0)
		sock.SetRcvtimeo(20 * time.Millisecond)
		sock.SetRcvhwm(100000)
		sock.SetSubscribe("")
		if err := sock.Connect(fmt.Sprintf("tcp://127.0.0.1:%d", port)); err != nil {
			ready <- err
			return
		}
		ready <- nil
		for {
			select {
			case <-s.stop:
				return
			default:
			}
			parts, err := sock.RecvMessage(0)
			if err != nil {
				continue
			}
			m := received{}
			if len(parts) > 0 {
				m.tag = parts[0]
			}
			if len(parts) > 1 {
				m.body = strings.Join(parts[1:], "\x1e")
			}
			if len(parts) != 2 {
				m.body = fmt.Sprintf("!%d-part message: %s", len(parts), m.body)
			}
			s.mu.Lock()
			s.msgs = append(s.msgs, m)
			s.mu.Unlock()
		}
	}()
	if err := <-ready; err != nil {
		panic(err)
	}
	return s
}

func (s *subscriber) count() int {
	s.mu.Lock()
	defer s.mu.Unlock()
	return len(s.msgs)
}

// waitFor waits until a message (tag, body) appears at index >= from; returns its index or -1.
func (s *subscriber) waitFor(from int, tag, body string, timeout time.Duration) int {
	deadline := time.Now().Add(timeout)
	for {
		s.mu.Lock()
		for i := from; i < len(s.msgs); i++ {
			if s.msgs[i].tag == tag && s.msgs[i].body == body {
				s.mu.Unlock()
				return i
			}
		}
		s.mu.Unlock()
		if time.Now().After(deadline) {
			return -1
		}
		time.Sleep(200 * time.Microsecond)
	}
}

var portCursor int

// freePort picks the next port of this process's range that can be bound right now.
func freePort() int {
	base := 21000 + (os.Getpid()%1500)*24
	for i := 0; i < 24*40; i++ {
		p := base + portCursor%24
		portCursor++
		if i >= 24 {
			p = 21000 + ((os.Getpid()+i)%1500)*24 + portCursor%24
		}
		l, err := net.Listen("tcp", fmt.Sprintf(":%d", p))
		if err == nil {
			l.Close()
			return p
		}
	}
	panic("no free TCP port found")
}

type sentMsg struct {
	ev     int // index into c.Ops, -1 for handshake / sentinel
	tag    string
	obj    string
	text   string
	sync   bool
	shake  bool
	extern bool // queued by dastard's own SourceControl (its text is learnt from the publication)
	arming bool // a new value of a tag outside the no-save list (used only to choose how long a wait may last)
}

func runHist(c Case, scratch string, tags map[string]bool) (string, interface{}, bool) {
	dir := filepath.Join(scratch, "home", ".dastard")
	cfg := prepareDir(dir, c.Dir)
	tb := newTable()
	dir0 := tb.coqDir(readDir(dir))
	rec := newRecorder(dir)
	currentRecorder = rec
	defer func() { currentRecorder = nil }()
	dastard.VerifSetPointHook(rec.hook)
	defer dastard.VerifSetPointHook(nil)

	port := freePort()
	abort := make(chan struct{})
	done := make(chan struct{})
	started := time.Now()
	go func() {
		defer close(done)
		dastard.RunClientUpdater(port, abort)
	}()
	sub := startSubscriber(port)
	defer func() {
		close(abort)
		<-done
		close(sub.stop)
		<-sub.done
	}()

	// the sequence of everything put on the channel, and where the harness waited
	var sentLog []sentMsg
	// things the harness did between two updates: waits and restarts, with the number of saves that
	// had completed when they began (so that they are rendered in the order in which they happened)
	type marker struct {
		pos    int
		nsaves int
		term   string
		impl   interface{}
	}
	var markers []marker

	syncNo := 0
	fillNo := 0
	var sc *dastard.SourceControl
	lastText := map[string]string{}
	put := func(m sentMsg, state interface{}) {
		m.obj = canonSent(m.tag, state)
		m.text = mustJSON(state)
		if m.tag != "SENDALL" && m.tag != "NEWDASTARD" {
			m.arming = !nosaveLower[strings.ToLower(m.tag)] && lastText[m.tag] != m.text
			lastText[m.tag] = m.text
		}
		sentLog = append(sentLog, m)
		rec.send(m.tag, state)
	}

	// handshake against the slow-joiner problem: repeat until one comes back, then wait for the last
	shakeDeadline := time.Now().Add(30 * time.Second)
	for {
		syncNo++
		put(sentMsg{ev: -1, tag: syncTag, sync: true, shake: true}, -syncNo)
		if sub.waitFor(0, syncTag, strconv.Itoa(-syncNo), 40*time.Millisecond) >= 0 {
			break
		}
		if time.Now().After(shakeDeadline) {
			panic("no message from the updater's PUB socket within 30 s")
		}
	}
	recvFrom := sub.count() // everything before belongs to the handshake
	broken := false
	// batches[i] = messages received between two sentinels, attributed to the events sent in between
	type batch struct {
		first, last int // indices into sentLog (events of the batch, the closing sentinel excluded)
		msgs        []received
	}
	var batches []batch
	batchStart := len(sentLog)
	closeBatch := func() {
		syncNo++
		body := strconv.Itoa(syncNo)
		end := len(sentLog)
		put(sentMsg{ev: -1, tag: syncTag, sync: true}, syncNo)
		idx := sub.waitFor(recvFrom, syncTag, body, 15*time.Second)
		sub.mu.Lock()
		var got []received
		if idx < 0 {
			broken = true
			got = append(got, sub.msgs[recvFrom:]...)
			recvFrom = len(sub.msgs)
		} else {
			got = append(got, sub.msgs[recvFrom:idx]...)
			recvFrom = idx + 1
		}
		sub.mu.Unlock()
		batches = append(batches, batch{first: batchStart, last: end, msgs: got})
		batchStart = len(sentLog)
	}

	for i, o := range c.Ops {
		if broken {
			break
		}
		switch o.Op {
		case "U":
			st := buildState(o.Tag, o.Val, o.Typed)
			put(sentMsg{ev: i, tag: o.Tag}, st)
		case "SA":
			put(sentMsg{ev: i, tag: "SENDALL"}, 0)
			closeBatch()
		case "W":
			// no sentinel here: whether a save is due must depend on the case's own updates only
			pos := len(sentLog)
			// a save that begins once everything sent so far has been taken by the updater; when none is
			// expected (no save-worthy change since the last save) the wait is kept short
			rec.mu.Lock()
			lastSave := -1
			for _, s := range rec.saves {
				if s.pos > lastSave {
					lastSave = s.pos
				}
			}
			rec.mu.Unlock()
			expect := lastSave < 0 // the timer created at start-up has not fired yet
			for i := lastSave; i >= 0 && i < len(sentLog); i++ {
				expect = expect || sentLog[i].arming
			}
			limit := 3500 * time.Millisecond
			if expect {
				limit = 20 * time.Second
			}
			deadline := time.Now().Add(limit)
			saved := false
			rec.mu.Lock()
			before := len(rec.saves)
			for _, s := range rec.saves {
				if s.pos == pos { // it began right after the sentinel, before this wait: the wait sees it done
					before--
				}
			}
			for {
				for _, s := range rec.saves {
					if s.pos == pos {
						saved = true
					}
				}
				if saved || time.Now().After(deadline) {
					break
				}
				rec.mu.Unlock()
				time.Sleep(2 * time.Millisecond)
				rec.mu.Lock()
			}
			rec.mu.Unlock()
			markers = append(markers, marker{pos: pos, nsaves: before, term: "Wt " + boolStr(saved), impl: map[string]bool{"wait_saved": saved}})
			if !saved {
				tags["wait-without-save"] = true
			}
		case "SAQ":
			// SendAllStatus through the real RPC method at the worst moment: the updater is busy (parked at the
			// beginning of its save) and its queue is full but for the slot that the method's own STATUS takes
			if sc == nil {
				sc = dastard.VerifC16NewSourceControl(400, 1000)
			}
			pos := len(sentLog)
			rec.mu.Lock()
			lastSave := -1
			for _, s := range rec.saves {
				if s.pos > lastSave {
					lastSave = s.pos
				}
			}
			nBefore := len(rec.saves)
			rec.mu.Unlock()
			expect := lastSave < 0
			for k := lastSave; k >= 0 && k < len(sentLog); k++ {
				expect = expect || sentLog[k].arming
			}
			limit := 3500 * time.Millisecond
			if expect {
				limit = 20 * time.Second
			}
			rec.requestPark()
			isParked := false
			select {
			case p := <-rec.parked:
				isParked = true
				if p != pos {
					tags["parked-with-backlog"] = true
				}
			case <-time.After(limit):
				if !rec.cancelPark() { // taken at the last moment
					<-rec.parked
					isParked = true
				}
			}
			markers = append(markers, marker{pos: pos, nsaves: nBefore, term: "Wt " + boolStr(isParked), impl: map[string]bool{"wait_saved": isParked}})
			if isParked {
				fill := []string{"TRIGGERRATE", "NUMBERWRITTEN", "EXTERNALTRIGGER", "DATADROP"}
				for n := 0; dastard.VerifC16Queued() < 9 && n < 12; n++ {
					fillNo++
					put(sentMsg{ev: i, tag: fill[n%len(fill)]}, map[string]int{"n": fillNo})
				}
				tags["sendall-with-full-queue"] = true
			} else {
				tags["wait-without-save"] = true
			}
			rpcDone := make(chan struct{})
			go func() {
				defer close(rpcDone)
				dummy, okay := "dummy", false
				sc.SendAllStatus(&dummy, &okay)
			}()
			if isParked {
				// the method has queued its STATUS (queue full); give it the instant it needs to reach the marker
				t := time.Now().Add(5 * time.Second)
				for dastard.VerifC16Queued() < 10 && time.Now().Before(t) {
					time.Sleep(100 * time.Microsecond)
				}
				select {
				case <-rpcDone:
				case <-time.After(50 * time.Millisecond):
				}
			}
			sentLog = append(sentLog, sentMsg{ev: i, tag: "STATUS", extern: true, arming: true},
				sentMsg{ev: i, tag: "SENDALL"})
			rec.addSent(2)
			if isParked {
				close(rec.release)
			}
			select {
			case <-rpcDone:
			case <-time.After(30 * time.Second):
				panic("SendAllStatus did not return")
			}
			closeBatch()
		case "SRC":
			// A piece of history made by dastard itself: a triangle source is started through the real
			// SourceControl, writing is started under a base path, and the source is stopped — while still
			// writing (N=0) or after WriteControl Stop (N=1).  The harness does not know which messages
			// this queues: every one is published exactly once, so they are learnt from the SUB socket.
			closeBatch()
			if broken {
				break
			}
			if sc == nil {
				sc = dastard.VerifC16NewSourceControl(400, 1000)
			}
			useOwnRecordChannels()
			rec.mu.Lock()
			rec.extern = true
			rec.mu.Unlock()
			base := filepath.Join(scratch, "data", fmt.Sprintf("run%d", i))
			os.MkdirAll(base, 0o775)
			okay := false
			dummy := "dummy"
			name := "TRIANGLESOURCE"
			tcfg := dastard.TriangleSourceConfig{Nchan: 4, SampleRate: 10000, Min: 100, Max: 200}
			sc.ConfigureTriangleSource(&tcfg, &okay)
			started := sc.Start(&name, &okay) == nil
			writing := false
			// trigger requests for different subsets of the channels: the table the RPC layer has put into
			// effect is the union, whatever each TRIGGER message carried
			trig := map[int]dastard.TriggerState{}
			if started {
				reqs := []dastard.FullTriggerState{
					{ChannelIndices: []int{0, 1}, TriggerState: dastard.TriggerState{AutoTrigger: true, AutoDelay: time.Duration(50+i) * time.Millisecond}},
					{ChannelIndices: []int{2, 3}, TriggerState: dastard.TriggerState{LevelTrigger: true, LevelRising: true, LevelLevel: dastard.RawType(1234 + i)}},
				}
				if o.N >= 2 {
					reqs = append(reqs, dastard.FullTriggerState{ChannelIndices: []int{1}, TriggerState: dastard.TriggerState{EdgeTrigger: true, EdgeRising: true, EdgeLevel: int32(77 + i)}})
				}
				for k := range reqs {
					if sc.ConfigureTriggers(&reqs[k], &okay) == nil {
						for _, ch := range reqs[k].ChannelIndices {
							trig[ch] = reqs[k].TriggerState
						}
					}
				}
			}
			// record lengths and group-trigger connections, the latter in two requests for different sources
			lengths := [2]int{0, 0}
			groups := map[int][]int{}
			if started {
				sz := dastard.SizeObject{Nsamp: 600 + 10*i, Npre: 100 + i}
				if sc.ConfigurePulseLengths(sz, &okay) == nil {
					lengths = [2]int{sz.Nsamp, sz.Npre}
				}
				for _, conn := range []map[int][]int{{0: {1}}, {2: {3}}} {
					if sc.AddGroupTriggerCoupling(dastard.GroupTriggerState{Connections: conn}, &okay) == nil {
						for src, rx := range conn {
							groups[src] = rx
						}
					}
				}
			}
			if started {
				wc := dastard.WriteControlConfig{Request: "Start", Path: base, WriteLJH22: true}
				writing = sc.WriteControl(&wc, &okay) == nil
				if writing && o.N%2 == 1 {
					wc2 := dastard.WriteControlConfig{Request: "Stop"}
					sc.WriteControl(&wc2, &okay)
				}
				sc.Stop(&dummy, &okay)
			}
			// everything dastard queued is in the channel before this sentinel
			syncNo++
			body := strconv.Itoa(syncNo)
			rec.send(syncTag, syncNo)
			idx := sub.waitFor(recvFrom, syncTag, body, 30*time.Second)
			sub.mu.Lock()
			var got []received
			if idx < 0 {
				broken = true
				got = append(got, sub.msgs[recvFrom:]...)
				recvFrom = len(sub.msgs)
			} else {
				got = append(got, sub.msgs[recvFrom:idx]...)
				recvFrom = idx + 1
			}
			sub.mu.Unlock()
			first := len(sentLog)
			for _, m := range got {
				sentLog = append(sentLog, sentMsg{ev: i, tag: m.tag, extern: true, arming: true,
					text: m.body, obj: canonFromText(m.tag, m.body)})
			}
			batches = append(batches, batch{first: first, last: len(sentLog), msgs: got})
			sentLog = append(sentLog, sentMsg{ev: -1, tag: syncTag, sync: true, obj: canonSent(syncTag, syncNo), text: body})
			batchStart = len(sentLog)
			rec.addSent(len(got))
			rec.mu.Lock()
			rec.extern = false
			if rec.externSave {
				tags["save-during-extern"] = true
			}
			rec.mu.Unlock()
			tags["history-through-sourcecontrol"] = true
			if writing {
				// the RPC layer has put this base path into effect
				inUse := mustJSON(project("writing", &dastard.WritingState{BasePath: base}))
				markers = append(markers, marker{pos: len(sentLog), nsaves: func() int { rec.mu.Lock(); defer rec.mu.Unlock(); return len(rec.saves) }(), term: fmt.Sprintf("IU %s %s", coqStr("writing"), coqVal(inUse)),
					impl: map[string]string{"base_path_in_use": base}})
				if o.N%2 == 0 {
					tags["source-stopped-while-writing"] = true
				}
			}
			nsvNow := func() int { rec.mu.Lock(); defer rec.mu.Unlock(); return len(rec.saves) }()
			if lengths[0] > 0 {
				v := mustJSON(map[string]int{"Nsamples": lengths[0], "Npresamp": lengths[1]})
				markers = append(markers, marker{pos: len(sentLog), nsaves: nsvNow, term: fmt.Sprintf("IU %s %s", coqStr("status"), coqVal(v)),
					impl: map[string]interface{}{"record_lengths_in_use": lengths}})
			}
			if len(groups) == 2 {
				v := normJSON(dastard.GroupTriggerState{Connections: groups})
				markers = append(markers, marker{pos: len(sentLog), nsaves: nsvNow, term: fmt.Sprintf("IU %s %s", coqStr("grouptrigger"), coqVal(v)),
					impl: map[string]interface{}{"group_trigger_in_use": groups}})
			}
			if len(trig) == 4 { // every channel of the source was set by a request: the table is known
				nsv := func() int { rec.mu.Lock(); defer rec.mu.Unlock(); return len(rec.saves) }()
				markers = append(markers, marker{pos: len(sentLog), nsaves: nsv,
					term: fmt.Sprintf("IU %s %s", coqStr("trigger"), coqVal(mustJSON(trig))),
					impl: map[string]interface{}{"trigger_table_in_use": trig}})
				tags["trigger-requests-for-channel-subsets"] = true
			}
		case "R":
			closeBatch()
			if broken {
				break
			}
			// the directory between two saves (never while one is in progress)
			var snap Snap
			var n int
			for try := 0; ; try++ {
				rec.mu.Lock()
				busy := rec.cur != nil
				n = len(rec.saves)
				rec.mu.Unlock()
				snap = readDir(dir)
				rec.mu.Lock()
				quiet := !busy && rec.cur == nil && n == len(rec.saves)
				rec.mu.Unlock()
				if quiet || try > 1000 {
					break
				}
				time.Sleep(time.Millisecond)
			}
			t, ob := renderRestart(scratch, snap, tags)
			markers = append(markers, marker{pos: len(sentLog), nsaves: n, term: t, impl: ob})
		}
	}
	if !broken {
		closeBatch()
	}
	if time.Since(started) > 50*time.Second {
		tags["slow-run"] = true // the one-minute ticker may have fired; not expected
	}
	// stop the updater before rendering (no more saves)
	dastard.VerifSetPointHook(nil)

	// attribute received messages to events
	pubs := make([][]received, len(sentLog))
	extra := map[int][]received{}
	for _, b := range batches {
		q := b.msgs
		for k := b.first; k < b.last; k++ {
			m := sentLog[k]
			if m.tag == "SENDALL" {
				pubs[k] = q
				q = nil
				continue
			}
			if len(q) > 0 && q[0].tag == m.tag {
				pubs[k] = q[:1]
				if m.extern {
					sentLog[k].text = q[0].body
					sentLog[k].obj = canonFromText(m.tag, q[0].body)
				}
				q = q[1:]
			} else if m.extern {
				sentLog[k].text, sentLog[k].obj = "!not published", "!not published"
			}
		}
		if len(q) > 0 && b.last > b.first {
			extra[b.last-1] = q
		} else if len(q) > 0 {
			extra[b.last] = q // belongs to the sentinel itself: unexpected
		}
	}
	renderPub := func(ms []received) string {
		es := make([]Entry, len(ms))
		for i, m := range ms {
			es[i] = Entry{K: m.tag, V: m.body}
		}
		return coqPairs(es)
	}
	var terms []string
	var impl []interface{}
	nontrivial := false
	rec.mu.Lock()
	saves := append([]*saveRec(nil), rec.saves...)
	rec.mu.Unlock()
	nextSave, nextMarker := 0, 0
	emitSaves := func(pos int) {
		for {
			if nextMarker < len(markers) && markers[nextMarker].pos == pos && markers[nextMarker].nsaves <= nextSave {
				terms = append(terms, markers[nextMarker].term)
				impl = append(impl, markers[nextMarker].impl)
				nextMarker++
				continue
			}
			if nextSave < len(saves) && saves[nextSave].pos <= pos {
				t, ob, _ := renderSave(saves[nextSave], tb, scratch, tags, c.Dir)
				terms = append(terms, t)
				impl = append(impl, ob)
				if ob.Reach == 4 {
					nontrivial = true
				}
				nextSave++
				continue
			}
			if nextMarker < len(markers) && markers[nextMarker].pos == pos {
				// a marker that saw more saves than were recorded: cannot happen; render it anyway
				terms = append(terms, markers[nextMarker].term)
				impl = append(impl, markers[nextMarker].impl)
				nextMarker++
				continue
			}
			return
		}
	}
	for k, m := range sentLog {
		emitSaves(k)
		switch {
		case m.shake:
			terms = append(terms, fmt.Sprintf("Ux %s %s %s", coqStr(m.tag), coqVal(m.obj), coqVal(m.text)))
		case m.tag == "SENDALL":
			all := append(append([]received(nil), pubs[k]...), extra[k]...)
			terms = append(terms, "SA "+renderPub(all))
			impl = append(impl, map[string]interface{}{"sendall": all2json(all)})
		default:
			got := append(append([]received(nil), pubs[k]...), extra[k]...)
			if m.sync && !broken {
				// the sentinel was received (that is how the batch was closed)
				got = append([]received{{m.tag, m.text}}, extra[k]...)
			}
			terms = append(terms, fmt.Sprintf("U %s %s %s %s", coqStr(m.tag), coqVal(m.obj), coqVal(m.text), renderPub(got)))
			if !m.sync {
				impl = append(impl, map[string]interface{}{"update": m.tag, "published": all2json(got)})
			}
		}
	}
	emitSaves(len(sentLog))
	if broken {
		tags["sentinel-lost"] = true
	}
	term := fmt.Sprintf("mk %s %s\n  %s\n  %s", coqPairs(cfg), dir0, tb.coq(), "["+strings.Join(terms, ";\n   ")+"]")
	return term, impl, nontrivial
}

func all2json(ms []received) [][2]string {
	out := make([][2]string, len(ms))
	for i, m := range ms {
		out[i] = [2]string{m.tag, m.body}
	}
	return out
}

func boolStr(b bool) string {
	if b {
		return "true"
	}
	return "false"
}

var ownChannels sync.Once

// useOwnRecordChannels keeps a running source from binding dastard's fixed ZMQ ports for records and
// summaries: the package-level publication channels are pre-set and drained.
func useOwnRecordChannels() {
	ownChannels.Do(func() {
		rc := make(chan []*dastard.DataRecord, 256)
		sm := make(chan []*dastard.DataRecord, 256)
		dastard.PubRecordsChan, dastard.PubSummariesChan = rc, sm
		go func() {
			for range rc {
			}
		}()
		go func() {
			for range sm {
			}
		}()
	})
}
