// Directory snapshots at the save points, the content table, and the real start-up sequence run on a
// snapshot (cmd/dastard built with the tag verif, DASTARD_VERIF_C16=settings).
package main

import (
	"bytes"
	"encoding/json"
	"fmt"
	"os"
	"os/exec"
	"path/filepath"
	"sort"
	"strings"
	"sync"
)

const (
	mainName = "config.yaml"
	tmpName  = "config.tmp.yaml"
	bakName  = "config.yaml.bak"
)

// Snap is the content of every regular file of the configuration directory.
type Snap map[string][]byte

func readDir(dir string) Snap {
	s := Snap{}
	ents, err := os.ReadDir(dir)
	if err != nil {
		panic(err)
	}
	for _, e := range ents {
		// a symbolic link to a file counts as a file with the content of its target (what a reader sees)
		fi, err := os.Stat(filepath.Join(dir, e.Name()))
		if err != nil || !fi.Mode().IsRegular() {
			continue
		}
		b, err := os.ReadFile(filepath.Join(dir, e.Name()))
		if err != nil {
			panic(err)
		}
		s[e.Name()] = b
	}
	return s
}

func (s Snap) clone() Snap {
	c := Snap{}
	for k, v := range s {
		c[k] = v
	}
	return c
}

func (s Snap) equal(o Snap) bool {
	if len(s) != len(o) {
		return false
	}
	for k, v := range s {
		w, ok := o[k]
		if !ok || !bytes.Equal(v, w) {
			return false
		}
	}
	return true
}

func (s Snap) materialize(dir string) {
	if err := os.MkdirAll(dir, 0o775); err != nil {
		panic(err)
	}
	for k, v := range s {
		if err := os.WriteFile(filepath.Join(dir, k), v, 0o664); err != nil {
			panic(err)
		}
	}
}

// Table interns file contents; id 0 is the empty content.
type Table struct {
	ids     map[string]int64
	entries map[int64][]Entry // only contents that parse
	order   []int64
	others  map[string]int64 // names of unrelated files
}

func newTable() *Table {
	t := &Table{ids: map[string]int64{}, entries: map[int64][]Entry{}, others: map[string]int64{}}
	t.ids[""] = 0
	t.entries[0] = nil
	t.order = []int64{0}
	return t
}

func (t *Table) intern(b []byte) int64 {
	if id, ok := t.ids[string(b)]; ok {
		return id
	}
	id := int64(len(t.ids))
	t.ids[string(b)] = id
	if es, ok := parseYAML(b); ok {
		t.entries[id] = es
	} else {
		// content that viper cannot parse (a left-over temporary file, say): a content like any other for
		// the directory model; a start-up that had to read it fails and is rendered as read id -1
		t.entries[id] = []Entry{{K: "!unparsable", V: fmt.Sprint(id)}}
	}
	t.order = append(t.order, id)
	return id
}

// internEntries finds (or makes) an id for a configuration that was read by the start-up sequence.
func (t *Table) internEntries(es []Entry) int64 {
	for _, id := range t.order {
		if entriesEqual(t.entries[id], es) {
			return id
		}
	}
	key := "\x00entries:" + mustJSON(es)
	id := int64(len(t.ids))
	t.ids[key] = id
	t.entries[id] = es
	t.order = append(t.order, id)
	return id
}

func (t *Table) coqName(n string) string {
	switch n {
	case mainName:
		return "Main"
	case tmpName:
		return "Tmp"
	case bakName:
		return "Bak"
	}
	id, ok := t.others[n]
	if !ok {
		id = int64(len(t.others) + 1)
		t.others[n] = id
	}
	return fmt.Sprintf("Other %d", id)
}

func (t *Table) coqDir(s Snap) string {
	names := make([]string, 0, len(s))
	for n := range s {
		names = append(names, n)
	}
	sort.Strings(names)
	parts := make([]string, len(names))
	for i, n := range names {
		parts[i] = fmt.Sprintf("(%s,%d)", t.coqName(n), t.intern(s[n]))
	}
	return "[" + strings.Join(parts, ";") + "]"
}

func (t *Table) coq() string {
	parts := make([]string, len(t.order))
	for i, id := range t.order {
		parts[i] = fmt.Sprintf("(%d,%s)", id, coqPairs(t.entries[id]))
	}
	return "[" + strings.Join(parts, ";\n   ") + "]"
}

// ---- the real start-up sequence ----

var (
	helperOnce sync.Once
	helperPath string
	helperErr  error
)

// dastardBinary builds $VERIF_REPO/cmd/dastard with the tag verif (once per run; the Go build cache makes
// repeated builds cheap) and returns its path.
func dastardBinary() (string, error) {
	helperOnce.Do(func() {
		if p := os.Getenv("VERIF_C16_DASTARD"); p != "" {
			helperPath = p
			return
		}
		helperErr = fmt.Errorf("VERIF_C16_DASTARD is not set (the run subcommand builds the binary and sets it)")
	})
	return helperPath, helperErr
}

func buildDastard(outDir string) (string, error) {
	repo := os.Getenv("VERIF_REPO")
	if repo == "" {
		repo = "/repo"
	}
	out := filepath.Join(outDir, fmt.Sprintf("dastard_verif_c16_%d", os.Getpid()))
	cmd := exec.Command("go", "build", "-tags", "verif", "-o", out, "./cmd/dastard")
	cmd.Dir = repo
	cmd.Env = append(os.Environ(), "GOFLAGS=-mod=mod", "GOPROXY=off", "GOSUMDB=off", "GOTOOLCHAIN=local")
	if b, err := cmd.CombinedOutput(); err != nil {
		return "", fmt.Errorf("cannot build cmd/dastard with -tags verif: %v\n%s", err, b)
	}
	return out, nil
}

// StartupResult is what dastard's start-up sequence did with a directory.
type StartupResult struct {
	Err     string  // setupViper returned an error (main would panic)
	Entries []Entry // the configuration it read from the file
	After   Snap    // the directory afterwards
}

// runStartup materialises the snapshot as $HOME/.dastard of a scratch home and runs the real
// makeFileExist + setupViper on it.
func runStartup(scratch string, s Snap) StartupResult {
	bin, err := dastardBinary()
	if err != nil {
		panic(err)
	}
	os.RemoveAll(scratch)
	cfgdir := filepath.Join(scratch, ".dastard")
	s.materialize(cfgdir)
	writeDecoys(scratch)
	cmd := exec.Command(bin)
	cmd.Dir = scratch
	cmd.Env = append([]string{"HOME=" + scratch, "DASTARD_VERIF_C16=settings", "PATH=" + os.Getenv("PATH")}, decoyEnv()...)
	var stdout, stderr bytes.Buffer
	cmd.Stdout = &stdout
	cmd.Stderr = &stderr
	if err := cmd.Run(); err != nil {
		return StartupResult{Err: fmt.Sprintf("start-up process failed: %v: %s", err, tail(stderr.String(), 400)), After: readDir(cfgdir)}
	}
	var out struct {
		Err      string
		File     string
		Settings map[string]interface{}
		InConfig []string
	}
	// the report is the last line of the output (start-up code may print messages of its own before it)
	report := bytes.TrimSpace(stdout.Bytes())
	if i := bytes.LastIndexByte(report, '\n'); i >= 0 {
		report = report[i+1:]
	}
	d := json.NewDecoder(bytes.NewReader(report))
	d.UseNumber()
	if err := d.Decode(&out); err != nil {
		panic(fmt.Sprintf("cannot decode start-up output %q: %v", stdout.String(), err))
	}
	res := StartupResult{Err: out.Err, After: readDir(cfgdir)}
	if out.Err == "" {
		if out.File != filepath.Join(cfgdir, mainName) {
			res.Err = "start-up read " + out.File + " instead of " + filepath.Join(cfgdir, mainName)
			return res
		}
		es, err := entriesFromSettings(out.Settings, out.InConfig)
		if err != nil {
			panic(err)
		}
		res.Entries = es
	}
	os.RemoveAll(scratch)
	return res
}

// writeDecoys puts files named like dastard's configuration file, with other contents, into the directory
// dastard is started from: another program's config.yaml, an old copy, a config.json.  Start-up must read
// the file the previous run saved in $HOME/.dastard all the same.
func writeDecoys(cwd string) {
	if err := os.MkdirAll(cwd, 0o775); err != nil {
		panic(err)
	}
	decoys := map[string]string{
		"config.yaml": "statelabel: decoy-yaml\nstatus:\n  nsamples: 77\n  npresamp: 7\nwriting:\n  basepath: /decoy/yaml\n",
		"config.json": `{"statelabel": "decoy-json", "status": {"nsamples": 88, "npresamp": 8}, "writing": {"basepath": "/decoy/json"}}` + "\n",
		"config.toml": "statelabel = \"decoy-toml\"\n[writing]\nbasepath = \"/decoy/toml\"\n",
	}
	for name, content := range decoys {
		if err := os.WriteFile(filepath.Join(cwd, name), []byte(content), 0o664); err != nil {
			panic(err)
		}
	}
}

func tail(s string, n int) string {
	if len(s) > n {
		return s[len(s)-n:]
	}
	return s
}
