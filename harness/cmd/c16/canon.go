// Canonical rendering of configuration values: the glue between Go values / yaml files and the
// (key, text) entries the Coq model works with.  Compared, not proved.
package main

import (
	"bytes"
	"encoding/json"
	"fmt"
	"sort"
	"strings"

	"github.com/spf13/viper"
	"github.com/usnistgov/dastard"
)

// Entry is one top-level key of a configuration with the canonical text of its value.
type Entry struct {
	K string `json:"k"`
	V string `json:"v"`
}

// the structures RunRPCServer / PrepareRun restore, by (lower-case) key
func typedZero(key string) interface{} {
	switch key {
	case "simpulse":
		return &dastard.SimPulseSourceConfig{}
	case "triangle":
		return &dastard.TriangleSourceConfig{}
	case "lancero":
		return &dastard.LanceroSourceConfig{}
	case "abaco":
		return &dastard.AbacoSourceConfig{}
	case "roach":
		return &dastard.RoachSourceConfig{}
	case "status":
		return &dastard.ServerStatus{}
	case "writing":
		return &dastard.WritingState{}
	case "tesmapfile":
		return new(string)
	case "trigger":
		return &[]dastard.FullTriggerState{}
	}
	return nil
}

// project keeps what the property speaks about: the source configurations in full, the record lengths of
// STATUS, the base path of WRITING, the map file name, the trigger settings.
func project(key string, v interface{}) interface{} {
	switch x := v.(type) {
	case *dastard.ServerStatus:
		return map[string]int{"Nsamples": x.Nsamples, "Npresamp": x.Npresamp}
	case dastard.ServerStatus:
		return map[string]int{"Nsamples": x.Nsamples, "Npresamp": x.Npresamp}
	case *dastard.WritingState:
		return map[string]string{"BasePath": x.BasePath}
	case *string:
		return *x
	case *[]dastard.FullTriggerState:
		return triggerTable(*x)
	}
	return v
}

// triggerTable: the trigger settings as a table by channel (a later entry of the list wins, as in
// PrepareRun).  Two TRIGGER messages mean the same iff their tables are equal, however channels are grouped.
func triggerTable(fts []dastard.FullTriggerState) map[int]dastard.TriggerState {
	t := map[int]dastard.TriggerState{}
	for i := range fts {
		for _, c := range fts[i].ChannelIndices {
			t[c] = fts[i].TriggerState
		}
	}
	return t
}

// parseTriggerTable reads either form: the list dastard publishes or the table of the canonical text.
func parseTriggerTable(js string) (map[int]dastard.TriggerState, error) {
	var fts []dastard.FullTriggerState
	if err := json.Unmarshal([]byte(js), &fts); err == nil {
		return triggerTable(fts), nil
	}
	t := map[int]dastard.TriggerState{}
	err := json.Unmarshal([]byte(js), &t)
	return t, err
}

// environment of every dastard the harness starts: variables named like the persisted topics (a lab script
// may export STATUS=ok or TRIGGER=external); they must not reach the configuration
func decoyEnv() []string {
	return []string{"STATUS=ok", "TRIGGER=external", "WRITING=/env/base/path", "ROACH=10.0.0.7", "ABACO=1", "LANCERO=1",
		"TRIANGLE=1", "SIMPULSE=1", "TESMAPFILE=/env/map.txt", "VERBOSE=true", "STATELABEL=env", "MIX=0.5", "___1=env"}
}

func lowerKeys(v interface{}) interface{} {
	switch x := v.(type) {
	case map[string]interface{}:
		m := make(map[string]interface{}, len(x))
		for k, e := range x {
			m[strings.ToLower(k)] = lowerKeys(e)
		}
		return m
	case []interface{}:
		for i := range x {
			x[i] = lowerKeys(x[i])
		}
	}
	return v
}

// normJSON: generic values are compared as JSON with lower-case, sorted keys (viper keys are
// case-insensitive at every level).
func normJSON(v interface{}) string {
	b, err := json.Marshal(v)
	if err != nil {
		return "!unmarshalable:" + err.Error()
	}
	var g interface{}
	d := json.NewDecoder(bytes.NewReader(b))
	d.UseNumber()
	if err := d.Decode(&g); err != nil {
		return "!undecodable:" + err.Error()
	}
	b, _ = json.Marshal(lowerKeys(g))
	return string(b)
}

func mustJSON(v interface{}) string {
	b, err := json.Marshal(v)
	if err != nil {
		return "!unmarshalable:" + err.Error()
	}
	return string(b)
}

// probe wraps a generic state: same JSON, same YAML, but viper's YAML encoder calls MarshalYAML after it
// has opened (and truncated) the file it is writing and before it writes — the one instant of a save
// that no verifPoint can reach.  f takes the directory snapshot.
type probe struct {
	v interface{}
	f func()
}

func (p probe) MarshalJSON() ([]byte, error) { return json.Marshal(p.v) }
func (p probe) MarshalYAML() (interface{}, error) {
	if p.f != nil {
		p.f()
	}
	return p.v, nil
}

// canonSent is the canonical text of a value as it is handed to the updater under `tag`.
func canonSent(tag string, state interface{}) string {
	if p, ok := state.(probe); ok {
		state = p.v
	}
	key := strings.ToLower(tag)
	if typedZero(key) != nil {
		switch state.(type) {
		case *dastard.SimPulseSourceConfig, *dastard.TriangleSourceConfig, *dastard.LanceroSourceConfig,
			*dastard.AbacoSourceConfig, *dastard.RoachSourceConfig, dastard.ServerStatus, *dastard.ServerStatus,
			*dastard.WritingState, []dastard.FullTriggerState:
			if fts, ok := state.([]dastard.FullTriggerState); ok {
				return mustJSON(project(key, &fts))
			}
			return mustJSON(project(key, state))
		case string:
			if key == "tesmapfile" {
				return mustJSON(state)
			}
		}
	}
	return normJSON(state)
}

// canonFromText is canonSent for a state known only by its JSON text (a message dastard itself queued).
func canonFromText(tag, text string) string {
	key := strings.ToLower(tag)
	if z := typedZero(key); z != nil {
		if err := json.Unmarshal([]byte(text), z); err == nil {
			return mustJSON(project(key, z))
		}
	}
	var g interface{}
	if err := json.Unmarshal([]byte(text), &g); err != nil {
		return "!not JSON: " + text
	}
	return normJSON(g)
}

// topLevelKeys names the top-level keys of a YAML mapping as yaml.v3 writes it (lines starting in column 0
// with `key:`), lower-cased as viper treats keys.  viper.AllSettings cannot be used for this: it leaves out
// a key whose value has no leaf, such as grouptrigger: {connections: {}}.
func topLevelKeys(b []byte) []string {
	var keys []string
	for _, line := range strings.Split(string(b), "\n") {
		if line == "" || line[0] == ' ' || line[0] == '\t' || line[0] == '#' || line[0] == '-' {
			continue
		}
		i := strings.Index(line, ":")
		if i <= 0 {
			continue
		}
		keys = append(keys, strings.ToLower(strings.Trim(line[:i], `"'`)))
	}
	return keys
}

// canonEntries renders the given top-level keys of a viper instance holding a configuration that was read
// from a file (or merged from a map).
func canonEntries(v *viper.Viper, keys []string) []Entry {
	var out []Entry
	seen := map[string]bool{}
	for _, k := range keys {
		if seen[k] || v.Get(k) == nil {
			continue
		}
		seen[k] = true
		var text string
		if z := typedZero(k); z != nil {
			if err := v.UnmarshalKey(k, z); err != nil {
				text = normJSON(v.Get(k)) // not a value of the structure: compared as a generic value
			} else {
				text = mustJSON(project(k, z))
			}
		} else {
			text = normJSON(v.Get(k))
		}
		out = append(out, Entry{K: k, V: text})
	}
	sort.Slice(out, func(i, j int) bool { return out[i].K < out[j].K })
	return out
}

// parseYAML: what a fresh viper instance reads from these bytes; ok=false when they do not parse.
func parseYAML(b []byte) ([]Entry, bool) {
	v := viper.New()
	v.SetConfigType("yaml")
	if err := v.ReadConfig(bytes.NewReader(b)); err != nil {
		return nil, false
	}
	return canonEntries(v, topLevelKeys(b)), true
}

func entriesFromSettings(settings map[string]interface{}, inConfig []string) ([]Entry, error) {
	v := viper.New()
	if err := v.MergeConfigMap(settings); err != nil {
		return nil, err
	}
	return canonEntries(v, inConfig), nil
}

func entriesEqual(a, b []Entry) bool {
	if len(a) != len(b) {
		return false
	}
	for i := range a {
		if a[i] != b[i] {
			return false
		}
	}
	return true
}

// ---- Coq rendering ----

// Interner numbers the distinct value strings of one case: the Coq side only compares values for
// equality.  0 = the empty string; the constants the model knows are negative.
type Interner struct {
	ids  map[string]int64
	strs map[int64]string
}

const (
	comment1Text = `"DASTARD configuration file. Written and read by DASTARD."`
	comment2Text = `"Human intervention by experts is permitted but not expected."`
)

func newInterner() *Interner {
	in := &Interner{ids: map[string]int64{}, strs: map[int64]string{}}
	for s, id := range map[string]int64{"": 0, comment1Text: -1, comment2Text: -2, "false": -3} {
		in.ids[s] = id
		in.strs[id] = s
	}
	return in
}

func (in *Interner) id(s string) int64 {
	if id, ok := in.ids[s]; ok {
		return id
	}
	id := int64(len(in.ids)) // 4 predefined: the first fresh id is 4
	in.ids[s] = id
	in.strs[id] = s
	return id
}

func (in *Interner) table() map[string]string {
	out := map[string]string{}
	for id, s := range in.strs {
		out[fmt.Sprint(id)] = s
	}
	return out
}

// vals is the interner of the case being run (cases run one after the other in a process).
var vals = newInterner()

func coqZ(v int64) string {
	if v < 0 {
		return fmt.Sprintf("(%d)", v)
	}
	return fmt.Sprintf("%d", v)
}

func coqStr(s string) string {
	for _, c := range []byte(s) {
		if c < 32 || c > 126 {
			panic(fmt.Sprintf("non-printable byte %d in a string rendered for Coq: %q", c, s))
		}
	}
	return `"` + strings.ReplaceAll(s, `"`, `""`) + `"`
}

func coqVal(s string) string { return coqZ(vals.id(s)) }

func coqPairs(es []Entry) string {
	parts := make([]string, len(es))
	for i, e := range es {
		parts[i] = "(" + coqStr(e.K) + "," + coqVal(e.V) + ")"
	}
	return "[" + strings.Join(parts, ";") + "]"
}
