// Case generators: corpus first, then seeded random histories.
package main

import (
	"encoding/json"
	"fmt"
	"time"

	"github.com/usnistgov/dastard"
	"verifharness/lib"
)

func raw(v interface{}) json.RawMessage {
	b, err := json.Marshal(v)
	if err != nil {
		panic(err)
	}
	return b
}

var typedTags = []string{"SIMPULSE", "TRIANGLE", "LANCERO", "ABACO", "ROACH", "STATUS", "WRITING", "TESMAPFILE", "TRIGGER"}
var genericTags = []string{"STATELABEL", "TRIGCOUPLING", "GROUPTRIGGER", "MIX", "DATADROP", "RAWDATABLOCK", "Foo", "x1"}
var nosaveTags = []string{"CHANNELNAMES", "ALIVE", "TRIGGERRATE", "NUMBERWRITTEN", "TESMAP", "EXTERNALTRIGGER", "TriggerRate"}
var oddTags = []string{"NEWDASTARD", "CURRENTTIME", "___1", "___3"}

// zi / zf / zb: a drawn value, but zero (false) one time in three: the zero value of a field is where a
// "default when missing" rule applied at the wrong moment shows
func zi(r *lib.Rng, lo, hi int) int {
	if r.Chance(1, 3) {
		return 0
	}
	return r.Range(lo, hi)
}
func zb(r *lib.Rng) bool { return r.Chance(1, 3) }

func ints(r *lib.Rng, maxLen, lo, hi int) []int {
	n := r.Intn(maxLen + 1)
	if r.Chance(1, 3) {
		n = 0
	}
	out := make([]int, n) // never nil: a nil slice is written as [] and read back as an empty one
	for i := range out {
		out[i] = r.Range(lo, hi)
	}
	return out
}

func word(r *lib.Rng) string {
	const letters = "abcdefghijklmnopqrstuvwxyzABCDEFGHIJKLMNOPQRSTUVWXYZ0123456789_-./ "
	n := r.Range(0, 12)
	b := make([]byte, n)
	for i := range b {
		b[i] = letters[r.Intn(len(letters))]
	}
	return string(b)
}

func unwrapOpts(r *lib.Rng) dastard.AbacoUnwrapOptions {
	if r.Chance(1, 5) { // unwrapping switched off, everything else left at zero
		return dastard.AbacoUnwrapOptions{RescaleRaw: r.Bool(), InvertChan: []int{}}
	}
	return dastard.AbacoUnwrapOptions{RescaleRaw: r.Bool(), Unwrap: zb(r), Bias: zb(r),
		ResetAfter: zi(r, 1, 40000), PulseSign: r.Range(-1, 1), InvertChan: ints(r, 3, 0, 63)}
}

func floats(r *lib.Rng, maxLen int) []float64 {
	n := r.Intn(maxLen + 1)
	out := make([]float64, n)
	for i := range out {
		out[i] = float64(r.Range(0, 400000)) / 4
	}
	return out
}

func strs(r *lib.Rng, maxLen int) []string {
	n := r.Intn(maxLen + 1)
	out := make([]string, n)
	for i := range out {
		out[i] = fmt.Sprintf("host%d:%d", r.Intn(5), r.Range(4000, 4010))
	}
	return out
}

func triggerState(r *lib.Rng) dastard.TriggerState {
	if r.Chance(1, 6) {
		return dastard.TriggerState{} // everything off and zero
	}
	ts := dastard.TriggerState{
		AutoTrigger: zb(r), AutoDelay: time.Duration(zi(r, 1, 2000)) * time.Millisecond,
		AutoVetoRange: dastard.RawType(zi(r, 1, 500)),
		LevelTrigger:  zb(r), LevelRising: r.Bool(), LevelLevel: dastard.RawType(zi(r, 1, 65535)),
		EdgeTrigger: zb(r), EdgeRising: r.Bool(), EdgeFalling: r.Bool(), EdgeLevel: int32(zi(r, -300, 300)),
		EdgeMulti: r.Chance(1, 4),
	}
	if ts.EdgeMulti {
		ts.EdgeMultiNoise = r.Bool()
		ts.EdgeMultiMakeShortRecords = r.Bool()
		ts.EdgeMultiMakeContaminatedRecords = r.Bool()
		ts.EdgeMultiDisableZeroThreshold = r.Bool()
		ts.EdgeMultiLevel = int32(r.Range(0, 200))
		ts.EdgeMultiVerifyNMonotone = r.Range(0, 6)
	}
	return ts
}

// typedValue draws a value of the structure dastard sends under this tag.
func typedValue(r *lib.Rng, tag string) json.RawMessage {
	switch tag {
	case "SIMPULSE":
		return raw(dastard.SimPulseSourceConfig{Nchan: r.Range(1, 16), SampleRate: float64(r.Range(1, 400)) * 250,
			Pedestal: float64(zi(r, 0, 8000)) / 2, Amplitudes: floats(r, 3), Nsamp: zi(r, 1, 4000)})
	case "TRIANGLE":
		return raw(dastard.TriangleSourceConfig{Nchan: r.Range(1, 16), SampleRate: float64(r.Range(1, 400)) * 250,
			Min: dastard.RawType(zi(r, 0, 1000)), Max: dastard.RawType(r.Pick([]int{0, 1000, r.Range(1000, 65535)}))})
	case "LANCERO":
		return raw(dastard.LanceroSourceConfig{FiberMask: uint32(zi(r, 1, 1<<31)), CardDelay: ints(r, 3, 0, 30),
			ActiveCards: ints(r, 3, 0, 3), ShouldAutoRestart: zb(r), FirstRow: r.Range(0, 2),
			ChanSepCards: r.Pick([]int{0, 1000, 10000}), ChanSepColumns: r.Pick([]int{0, 100, 1000}),
			DastardOutput: dastard.LanceroDastardOutputJSON{Nsamp: r.Range(1, 16), ClockMHz: r.Pick([]int{50, 125}),
				AvailableCards: ints(r, 3, 0, 3), Lsync: r.Range(20, 400), Settle: r.Range(0, 100),
				SequenceLength: r.Range(1, 64), PropagationDelay: r.Range(0, 20), BAD16CardDelay: r.Range(0, 20)}})
	case "ABACO":
		return raw(dastard.AbacoSourceConfig{ActiveCards: ints(r, 3, 0, 4), AvailableCards: ints(r, 3, 0, 4),
			HostPortUDP: strs(r, 2), AbacoUnwrapOptions: unwrapOpts(r)})
	case "ROACH":
		return raw(dastard.RoachSourceConfig{HostPort: strs(r, 2), Rates: floats(r, 2), AbacoUnwrapOptions: unwrapOpts(r)})
	case "STATUS":
		groups := make([]dastard.GroupIndex, r.Intn(3))
		for i := range groups {
			groups[i] = dastard.GroupIndex{Firstchan: i * 100, Nchan: r.Range(1, 64)}
		}
		ns := r.Range(2, 10000) // as ConfigurePulseLengths accepts them: 0 < Npresamp < Nsamples
		return raw(dastard.ServerStatus{Running: zb(r), SourceName: pickS(r, []string{"", "Triangles", "SimPulses", "Lancero", "Abaco"}),
			Nchannels: zi(r, 1, 64), Nsamples: ns, Npresamp: r.Range(1, ns-1),
			SamplePeriod: time.Duration(r.Range(1, 100000)) * time.Nanosecond, ChanGroups: groups,
			ChannelsWithProjectors: ints(r, 3, 0, 63)})
	case "WRITING":
		return raw(map[string]interface{}{"Active": zb(r), "Paused": zb(r), "BasePath": pickS(r, []string{"", "/data/" + word(r), "/data/" + word(r)}),
			"FilenamePattern": "%s/" + word(r), "WriteLJH22": r.Bool(), "WriteOFF": r.Bool(), "WriteLJH3": r.Bool(),
			"ExperimentStateFilename": word(r), "ExperimentStateLabel": word(r), "ExperimentStateLabelUnixNano": r.Range(0, 1<<40),
			"ExternalTriggerFilename": word(r), "DataDropFilename": word(r)})
	case "TESMAPFILE":
		return raw(pickS(r, []string{"maps/m1.txt", "maps/m2.txt", "maps/m3.txt"})) // files the restarted dastard can load
	case "TRIGGER":
		n := r.Range(0, 3)
		fts := make([]dastard.FullTriggerState, n)
		for i := range fts {
			fts[i] = dastard.FullTriggerState{ChannelIndices: ints(r, 4, 0, 15), TriggerState: triggerState(r)}
		}
		return raw(fts)
	}
	panic("no typed value for " + tag)
}

func genericValue(r *lib.Rng) json.RawMessage {
	if r.Chance(1, 30) {
		// a value whose JSON text is longer than 64 KiB (what TRIGGER, CHANNELNAMES or MIX are for an array of
		// thousands of channels): it must be replayed and saved like any other (seed C16-18)
		n := r.Range(17000, 30000)
		big := make([]int, n)
		for i := range big {
			big[i] = 1000 + (i*7+n)%9000
		}
		return raw(big)
	}
	switch r.Intn(6) {
	case 0:
		return raw(r.Range(-1000, 1000))
	case 1:
		return raw(word(r))
	case 2:
		return raw(r.Bool())
	case 3:
		return raw(ints(r, 4, -5, 5))
	case 4:
		return raw(map[string]interface{}{"count": r.Range(0, 9), "name": word(r), "on": r.Bool()})
	default:
		return raw(float64(r.Range(-4000, 4000)) / 8)
	}
}

func randomUpdate(r *lib.Rng, pool []Op) Op {
	// repeats and unchanged values: re-send an earlier update verbatim, or an earlier tag with a new value
	if len(pool) > 0 && r.Chance(1, 3) {
		o := pool[r.Intn(len(pool))]
		if r.Bool() {
			return o
		}
		if o.Typed {
			o.Val = typedValue(r, o.Tag)
		} else {
			o.Val = genericValue(r)
		}
		return o
	}
	switch x := r.Intn(20); {
	case x < 9:
		t := typedTags[r.Intn(len(typedTags))]
		return Op{Op: "U", Tag: t, Typed: true, Val: typedValue(r, t)}
	case x < 13:
		return Op{Op: "U", Tag: genericTags[r.Intn(len(genericTags))], Val: genericValue(r)}
	case x < 17:
		return Op{Op: "U", Tag: nosaveTags[r.Intn(len(nosaveTags))], Val: genericValue(r)}
	default:
		return Op{Op: "U", Tag: oddTags[r.Intn(len(oddTags))], Val: genericValue(r)}
	}
}

func randomConfig(r *lib.Rng) map[string]OpVal {
	m := map[string]OpVal{}
	for i, n := 0, r.Range(1, 5); i < n; i++ {
		if r.Bool() {
			t := typedTags[r.Intn(len(typedTags))]
			m[t] = OpVal{Typed: true, Val: typedValue(r, t)}
		} else {
			m[pickS(r, []string{"STATELABEL", "MIX", "somekey", "verbose", "___1", "CURRENTTIME"})] = OpVal{Val: genericValue(r)}
		}
	}
	return m
}

func randomDir(r *lib.Rng) dirSpec {
	var d dirSpec
	if r.Chance(3, 4) {
		d.Init = randomConfig(r)
	}
	if r.Chance(1, 2) {
		d.Bak = randomConfig(r)
	}
	switch r.Intn(5) {
	case 0:
		d.TmpLeft = "simpulse:\n  nchan: 3\nstale: true\n"
	case 1:
		d.TmpLeft = "truncated: [1, 2"
	}
	if r.Chance(1, 4) {
		d.Other = "unrelated file\n"
	}
	return d
}

func genHist(r *lib.Rng, id int64, tier string, withSaves bool) Case {
	c := Case{ID: id, Mode: "hist", Dir: randomDir(r)}
	n := r.Range(3, 30)
	if tier == "thorough" {
		n = r.Range(3, 80)
	}
	var pool []Op
	waits := 0
	for i := 0; i < n; i++ {
		switch x := r.Intn(10); {
		case x < 7:
			o := randomUpdate(r, pool)
			pool = append(pool, o)
			c.Ops = append(c.Ops, o)
		case x < 9:
			c.Ops = append(c.Ops, Op{Op: "SA"})
		default:
			if withSaves && waits < 2 {
				// make sure a save is due: a persistent topic changes just before the wait (most of the time)
				if r.Chance(4, 5) {
					t := typedTags[r.Intn(len(typedTags))]
					o := Op{Op: "U", Tag: t, Typed: true, Val: typedValue(r, t)}
					pool = append(pool, o)
					c.Ops = append(c.Ops, o)
				}
				if r.Chance(1, 4) {
					// a stretch of history made by dastard's own SourceControl just before the save
					c.Ops = append(c.Ops, Op{Op: "SRC", N: int64(r.Intn(4))})
				}
				if r.Chance(1, 3) {
					c.Ops = append(c.Ops, Op{Op: "SAQ"}) // waits for the save, too
				} else {
					c.Ops = append(c.Ops, Op{Op: "W"})
				}
				waits++
				if r.Chance(1, 3) {
					c.Ops = append(c.Ops, Op{Op: "R"})
				}
			}
		}
	}
	c.Ops = append(c.Ops, Op{Op: "SA"})
	if withSaves && waits == 0 {
		c.Ops = append(c.Ops, Op{Op: "W"}, Op{Op: "SA"})
	}
	return c
}

func genDirect(r *lib.Rng, id int64, tier string) Case {
	c := Case{ID: id, Mode: "direct", Dir: randomDir(r)}
	switch r.Intn(12) {
	case 4, 5:
		c.Dir.MainSymlink = true
	case 0, 1:
		c.Dir.MainMissing = true
	case 2:
		c.Dir.TmpIsDir, c.Dir.TmpLeft = true, ""
	case 3:
		c.Dir.BakIsDir, c.Dir.Bak = true, nil
	}
	n := r.Range(2, 14)
	var pool []Op
	for i := 0; i < n; i++ {
		if r.Chance(2, 3) {
			o := randomUpdate(r, pool)
			if o.Tag == "NEWDASTARD" { // never remembered by the updater, hence never in the map
				o.Tag = "STATELABEL"
			}
			pool = append(pool, o)
			c.Ops = append(c.Ops, o)
		} else {
			c.Ops = append(c.Ops, Op{Op: "S"})
			if r.Chance(1, 4) {
				// killed at some point of this save, started again: the run goes on from what was left
				c.Ops = append(c.Ops, Op{Op: "K", N: int64(r.Intn(6))})
				pool = nil
			}
		}
	}
	c.Ops = append(c.Ops, Op{Op: "S"})
	if r.Chance(1, 4) {
		c.Ops = append(c.Ops, Op{Op: "R"})
	}
	return c
}

func corpus() []Case {
	r := lib.NewRng(16)
	st := func(ns, np int) json.RawMessage {
		return raw(dastard.ServerStatus{Nsamples: ns, Npresamp: np, SamplePeriod: 10 * time.Microsecond,
			ChanGroups: []dastard.GroupIndex{}, ChannelsWithProjectors: []int{}})
	}
	all := func() []Op {
		var ops []Op
		for _, t := range typedTags {
			ops = append(ops, Op{Op: "U", Tag: t, Typed: true, Val: typedValue(r, t)})
		}
		return ops
	}
	return []Case{
		// the witness of save_crash_safe_refuted_pre_fix: a complete main file, one save
		{Mode: "direct", Dir: dirSpec{Init: map[string]OpVal{"STATUS": {Typed: true, Val: st(1000, 250)}}},
			Ops: []Op{{Op: "U", Tag: "STATUS", Typed: true, Val: st(2000, 500)}, {Op: "S"}}},
		// every persisted structure, saved twice, with a backup and a left-over temporary file in place
		{Mode: "direct", Dir: dirSpec{Init: map[string]OpVal{"STATELABEL": {Val: raw("old")}},
			Bak: map[string]OpVal{"STATELABEL": {Val: raw("older")}}, TmpLeft: "truncated: [1, 2", Other: "x\n"},
			Ops: append(append(all(), Op{Op: "S"}, Op{Op: "R"}), append(all(), Op{Op: "S"}, Op{Op: "R"})...)},
		// fresh installation: empty main file
		{Mode: "direct", Ops: []Op{{Op: "S"}, {Op: "U", Tag: "TRIGGER", Typed: true, Val: typedValue(r, "TRIGGER")}, {Op: "S"}}},
		// main file gone while dastard runs
		{Mode: "direct", Dir: dirSpec{Init: map[string]OpVal{"STATELABEL": {Val: raw("old")}}, MainMissing: true},
			Ops: []Op{{Op: "U", Tag: "STATELABEL", Val: raw("new")}, {Op: "S"}, {Op: "S"}}},
		// configurations that ConfigureTriangleSource / ConfigureSimPulseSource reject are published and saved
		// all the same; before the fix the next start-up panicked on them
		{Mode: "direct", Ops: []Op{{Op: "U", Tag: "TRIANGLE", Typed: true,
			Val: raw(dastard.TriangleSourceConfig{Nchan: 5, SampleRate: 1000, Min: 586, Max: 53363})}, {Op: "S"}, {Op: "R"}}},
		{Mode: "direct", Ops: []Op{{Op: "U", Tag: "SIMPULSE", Typed: true,
			Val: raw(dastard.SimPulseSourceConfig{Nchan: 2, SampleRate: 10, Pedestal: 100, Amplitudes: []float64{1000, 2000}, Nsamp: 1000})},
			{Op: "U", Tag: "TRIANGLE", Typed: true, Val: raw(dastard.TriangleSourceConfig{Nchan: 2, SampleRate: 1000, Min: 9, Max: 3})},
			{Op: "S"}, {Op: "R"}}},
		// early returns of saveState: the temporary file cannot be written; the old backup cannot be removed
		{Mode: "direct", Dir: dirSpec{Init: map[string]OpVal{"STATELABEL": {Val: raw("old")}}, TmpIsDir: true},
			Ops: []Op{{Op: "U", Tag: "STATELABEL", Val: raw("new")}, {Op: "S"}, {Op: "S"}}},
		{Mode: "direct", Dir: dirSpec{Init: map[string]OpVal{"STATELABEL": {Val: raw("old")}}, BakIsDir: true},
			Ops: []Op{{Op: "U", Tag: "STATELABEL", Val: raw("new")}, {Op: "S"}, {Op: "S"}}},
		// killed at every point of a save in turn; after each restart new values, a save, and a second dastard
		// started on the result must report the new values
		{Mode: "direct", Dir: dirSpec{Init: map[string]OpVal{"STATELABEL": {Val: raw("old")}}},
			Ops: []Op{
				{Op: "U", Tag: "STATUS", Typed: true, Val: st(1000, 250)}, {Op: "S"}, {Op: "K", N: 2},
				{Op: "U", Tag: "STATUS", Typed: true, Val: st(2000, 500)}, {Op: "S"}, {Op: "R"}, {Op: "K", N: 3},
				{Op: "U", Tag: "STATUS", Typed: true, Val: st(3000, 750)}, {Op: "S"}, {Op: "R"}, {Op: "K", N: 4},
				{Op: "U", Tag: "STATUS", Typed: true, Val: st(4000, 100)}, {Op: "S"}, {Op: "R"}, {Op: "K", N: 1},
				{Op: "U", Tag: "WRITING", Typed: true, Val: raw(map[string]interface{}{"BasePath": ""})}, {Op: "S"}, {Op: "K", N: 5},
				{Op: "S"}, {Op: "R"}}},
		// values that look like "missing": unwrapping off with a zero reset interval, empty lists, empty base path
		{Mode: "direct", Ops: []Op{
			{Op: "U", Tag: "ABACO", Typed: true, Val: raw(dastard.AbacoSourceConfig{ActiveCards: []int{}, AvailableCards: []int{}, HostPortUDP: []string{},
				AbacoUnwrapOptions: dastard.AbacoUnwrapOptions{InvertChan: []int{}}})},
			{Op: "U", Tag: "ROACH", Typed: true, Val: raw(dastard.RoachSourceConfig{HostPort: []string{}, Rates: []float64{},
				AbacoUnwrapOptions: dastard.AbacoUnwrapOptions{RescaleRaw: true, InvertChan: []int{}}})},
			{Op: "U", Tag: "WRITING", Typed: true, Val: raw(map[string]interface{}{"BasePath": ""})},
			{Op: "U", Tag: "TRIGGER", Typed: true, Val: raw([]dastard.FullTriggerState{{ChannelIndices: []int{0, 1, 2}}})},
			{Op: "U", Tag: "LANCERO", Typed: true, Val: raw(dastard.LanceroSourceConfig{CardDelay: []int{}, ActiveCards: []int{},
				DastardOutput: dastard.LanceroDastardOutputJSON{AvailableCards: []int{}}})},
			{Op: "S"}, {Op: "R"}}},
		// three runs: the first stores trigger settings, the second publishes nothing about them (no source is
		// started), the third must still find them
		{Mode: "direct", Ops: []Op{
			{Op: "U", Tag: "TRIGGER", Typed: true, Val: typedValue(r, "TRIGGER")}, {Op: "U", Tag: "STATELABEL", Val: raw("run1")}, {Op: "S"}, {Op: "K", N: 5},
			{Op: "U", Tag: "STATUS", Typed: true, Val: st(1000, 250)}, {Op: "S"}, {Op: "K", N: 5},
			{Op: "S"}, {Op: "R"}}},
		// the configuration file is a symbolic link into another directory
		{Mode: "direct", Dir: dirSpec{Init: map[string]OpVal{"STATELABEL": {Val: raw("old")}}, MainSymlink: true},
			Ops: []Op{{Op: "U", Tag: "STATELABEL", Val: raw("new")}, {Op: "S"}, {Op: "U", Tag: "MIX", Val: raw(3)}, {Op: "S"}, {Op: "R"}}},
		// a source started, writing started under a base path, the source stopped while writing; the delayed
		// save; a second dastard must come up with that base path (then the same with WriteControl Stop first)
		{Mode: "hist", Ops: []Op{{Op: "SRC"}, {Op: "W"}, {Op: "R"}, {Op: "SA"}, {Op: "SRC", N: 3}, {Op: "W"}, {Op: "R"}, {Op: "SA"}}},
		// SendAllStatus through the real RPC method while the updater is busy saving and its queue is full
		{Mode: "hist", Ops: append(append(all(), Op{Op: "U", Tag: "ALIVE", Val: raw(7)}, Op{Op: "SAQ"}),
			Op{Op: "U", Tag: "STATELABEL", Val: raw("after")}, Op{Op: "SAQ"}, Op{Op: "SA"})},
		// SENDALL: nothing yet; repeats; unchanged values; events and comment keys; volatile topics
		{Mode: "hist", Ops: []Op{{Op: "SA"},
			{Op: "U", Tag: "STATUS", Typed: true, Val: st(1000, 250)}, {Op: "U", Tag: "STATUS", Typed: true, Val: st(1000, 250)},
			{Op: "U", Tag: "NEWDASTARD", Val: raw("new Dastard is running")}, {Op: "U", Tag: "ALIVE", Val: raw(1)},
			{Op: "SA"},
			{Op: "U", Tag: "STATUS", Typed: true, Val: st(2000, 500)}, {Op: "U", Tag: "ALIVE", Val: raw(2)},
			{Op: "U", Tag: "CURRENTTIME", Val: raw("noon")}, {Op: "U", Tag: "STATUS", Typed: true, Val: st(1000, 250)},
			{Op: "SA"}, {Op: "SA"}}},
		// the updater's own delayed save, twice, and what the next start-up reads
		{Mode: "hist", Dir: dirSpec{Init: map[string]OpVal{"STATELABEL": {Val: raw("old")}, "somekey": {Val: raw(3)}}},
			Ops: append(append(all(), Op{Op: "W"}, Op{Op: "SA"}, Op{Op: "U", Tag: "ALIVE", Val: raw(5)}),
				append(all(), Op{Op: "W"}, Op{Op: "R"}, Op{Op: "SA"})...)},
		// a volatile topic does not make a save due
		{Mode: "hist", Ops: []Op{{Op: "U", Tag: "STATELABEL", Val: raw("a")}, {Op: "W"}, {Op: "U", Tag: "ALIVE", Val: raw(1)},
			{Op: "U", Tag: "STATELABEL", Val: raw("a")}, {Op: "W"}, {Op: "U", Tag: "STATELABEL", Val: raw("b")}, {Op: "W"}, {Op: "SA"}}},
	}
}

func gen(seed uint64, tier string) []interface{} {
	r := lib.NewRng(seed)
	nStatus, nSave, nDirect := 150, 36, 60
	if tier == "thorough" {
		nStatus, nSave, nDirect = 1500, 400, 800
	}
	var out []interface{}
	id := int64(1)
	add := func(c Case) {
		c.ID = id
		id++
		out = append(out, c)
	}
	for _, c := range corpus() {
		add(c)
	}
	// interleave so that every chunk of the isolated run holds slow (save) and fast cases
	for i := 0; i < nStatus || i < nSave || i < nDirect; i++ {
		if i < nSave {
			add(genHist(r.Fork(), 0, tier, true))
		}
		if i < nDirect {
			add(genDirect(r.Fork(), 0, tier))
		}
		if i < nStatus {
			add(genHist(r.Fork(), 0, tier, false))
		}
	}
	return out
}

func pickS(r *lib.Rng, xs []string) string { return xs[r.Intn(len(xs))] }
