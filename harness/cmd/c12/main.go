// C12 harness: drives dastard.NewPhaseUnwrapper / UnwrapInPlace directly, and the unwrappers the program
// itself builds for an option set (NewAbacoGroup; RoachDevice.samplePacket over a loopback UDP packet).
// Every stream is run once as a single call and once cut into calls, each on a freshly built unwrapper.
package main

import (
	"encoding/json"
	"fmt"
	"sort"
	"strings"

	"github.com/usnistgov/dastard"
	"verifharness/lib"
)

type Case struct {
	ID   int64  `json:"id"`
	Kind string `json:"kind"` // api | abaco | roach
	// api: arguments of NewPhaseUnwrapper
	F    uint64 `json:"f"`
	D    uint64 `json:"d"`
	En   bool   `json:"en"`
	Bias int64  `json:"bias"`
	Inv  bool   `json:"inv"`
	// shared by api and the option sets
	RA int64 `json:"ra"`
	PS int64 `json:"ps"`
	// abaco / roach: AbacoUnwrapOptions (+ which channel of which group)
	Rescale   bool  `json:"rescale"`
	Unwrap    bool  `json:"unwrap"`
	BiasOn    bool  `json:"biason"`
	InvChan   []int `json:"invchan"`
	FirstChan int   `json:"firstchan"`
	NChan     int   `json:"nchan"`
	Idx       int   `json:"idx"`
	Demux     bool  `json:"demux,omitempty"`    // abaco: go through packets + AbacoGroup.demuxData (all channels of the group)
	PF        int   `json:"pf,omitempty"`       // abaco demux: frames per packet; roach stream: samples per packet
	Stream    bool  `json:"stream,omitempty"`   // roach: go through UDP packets + RoachDevice.readPackets (all channels)
	Resample  bool  `json:"resample,omitempty"` // roach: the device is sampled, used, and sampled again before the run
	// kind "abacosrc": ONE AbacoSource object goes through several rounds of Configure -> Sample -> data;
	// the fields above describe the first round, More the following ones (same channel group)
	More []Round `json:"more,omitempty"`
	// the stream and the call boundaries (chunk lengths; the rest of the stream is a final call)
	Xs   []int `json:"xs"`
	Cuts []int `json:"cuts"`
	// compact form of a long stream: [count, value] runs, appended to Xs when the case is run
	Runs [][2]int `json:"runs,omitempty"`
	Note string   `json:"note,omitempty"`
}

// Round is one further Configure -> Sample -> data round of an "abacosrc" case.
type Round struct {
	Rescale bool  `json:"rescale"`
	Unwrap  bool  `json:"unwrap"`
	BiasOn  bool  `json:"biason"`
	RA      int64 `json:"ra"`
	PS      int64 `json:"ps"`
	InvChan []int `json:"invchan"`
	Xs      []int `json:"xs"`
	Cuts    []int `json:"cuts"`
}

// ---------- what the configuration means (harness-side bookkeeping for generators and tags only) ----------

type cfgInfo struct {
	ok           bool // constructor is expected to succeed with unwrapping on, inside the property's domain
	f, d         uint
	q            int // quantum in output units
	lower, upper int // step limits in output units
	home         int
	ra           int
	inv          bool
	enabled      bool
}

func (c *Case) options() dastard.AbacoUnwrapOptions {
	return dastard.AbacoUnwrapOptions{RescaleRaw: c.Rescale, Unwrap: c.Unwrap, Bias: c.BiasOn,
		ResetAfter: int(c.RA), PulseSign: int(c.PS), InvertChan: c.InvChan}
}

func optBias(biasOn bool, ps int64) int64 {
	if !biasOn {
		return 0
	}
	if ps < 0 {
		return -24904
	}
	return 24904
}

// info predicts the parameters (from the documented meaning of the options, not from the implementation).
func (c *Case) info() cfgInfo {
	var f, d uint64
	var en, inv bool
	var bias, ra int64
	switch c.Kind {
	case "api":
		f, d, en, bias, ra, inv = c.F, c.D, c.En, c.Bias, c.RA, c.Inv
	case "abaco", "abacosrc":
		f, d = 16, 0
		if c.Rescale {
			d = 4
		}
		en, bias, ra = c.Unwrap, optBias(c.BiasOn, c.PS), c.RA
		for _, ic := range c.InvChan {
			if ic == c.FirstChan+c.Idx {
				inv = true
			}
		}
	case "roach":
		f, d, en, ra = 14, 2, true, 20000
		bias = optBias(c.BiasOn, c.PS) >> 2
	}
	ci := cfgInfo{inv: inv, enabled: en}
	if d < 64 && f <= 16 {
		ci.f, ci.d = uint(f), uint(d)
	} else {
		ci.f, ci.d = 16, 0
	}
	if en && d > 0 && d < f && f <= 16 && f-d <= 14 && ra > 0 {
		ci.ok = true
		ci.q = 1 << (f - d)
		b := int(bias >> d)
		b = b % ci.q
		ci.lower, ci.upper = b-ci.q/2, b+ci.q/2
		if c.PS > 0 {
			ci.home = ci.q
		} else {
			ci.home = 65536 - 2*ci.q
		}
		ci.ra = int(ra)
	}
	return ci
}

// raw builds a 16-bit input whose prepared value (after inversion, masking, bit drop) is v mod q.
func (ci cfgInfo) raw(r *lib.Rng, v int) int {
	q := ci.q
	if q == 0 {
		q = 1 << 12
	}
	v = ((v % q) + q) % q
	x := v << ci.d
	if ci.d > 0 {
		x |= r.Intn(1 << ci.d) // dropped low bits are arbitrary
	}
	if ci.f < 16 {
		x |= r.Intn(1<<(16-ci.f)) << ci.f // bits above the fraction bits are masked off
	}
	x &= 0xffff
	if ci.inv {
		x ^= 0xffff
	}
	return x
}

// ---------- stream generators ----------

func slopeClasses(ci cfgInfo, r *lib.Rng) int {
	q := ci.q
	switch r.Intn(14) {
	case 0:
		return 0
	case 1:
		return r.Pick([]int{1, -1, 2, -3})
	case 2:
		return ci.upper + r.Range(-1, 1)
	case 3:
		return ci.lower + r.Range(-1, 1)
	case 4:
		return ci.upper - q + r.Range(-1, 1)
	case 5:
		return ci.lower + q + r.Range(-1, 1)
	case 6:
		return q/2 + r.Range(-1, 1)
	case 7:
		return -(q / 2) + r.Range(-1, 1)
	case 8:
		return q - 1 - r.Intn(3)
	case 9:
		return -(q - 1) + r.Intn(3)
	case 10:
		return r.Range(-q/8, q/8)
	default:
		return r.Range(-(q - 1), q-1)
	}
}

func genStream(r *lib.Rng, ci cfgInfo, n int) []int {
	xs := make([]int, 0, n)
	q := ci.q
	if !ci.ok {
		q = 1 << 12
		ci.q = q
		ci.lower, ci.upper = -q/2, q/2
		ci.ra = r.Range(1, 20)
	}
	v := r.Intn(q)
	style := r.Intn(8)
	switch style {
	case 0: // uniform 16-bit noise
		for i := 0; i < n; i++ {
			xs = append(xs, r.Intn(65536))
		}
	case 1: // one ramp of a boundary slope class
		s := slopeClasses(ci, r)
		for i := 0; i < n; i++ {
			xs = append(xs, ci.raw(r, v))
			v += s
		}
	case 2: // piecewise ramps
		s := slopeClasses(ci, r)
		for i := 0; i < n; i++ {
			if r.Chance(1, 6) {
				s = slopeClasses(ci, r)
			}
			xs = append(xs, ci.raw(r, v))
			v += s
		}
	case 3: // slow walk with occasional pulses (fast rise, slow decay)
		for i := 0; i < n; i++ {
			if r.Chance(1, 12) {
				v += r.Pick([]int{1, -1}) * r.Range(q/4, q-1)
			} else {
				v += r.Range(-q/50-1, q/50+1)
			}
			xs = append(xs, ci.raw(r, v))
		}
	case 4, 5: // leave home, stay away for about resetAfter samples, maybe come back by a step
		pre := r.Range(0, 3)
		for i := 0; i < pre; i++ {
			xs = append(xs, ci.raw(r, v))
		}
		for len(xs) < n {
			jump := ci.upper + 1 + r.Intn(3)
			if r.Bool() {
				jump = ci.lower - 1 - r.Intn(3)
			}
			v += jump
			xs = append(xs, ci.raw(r, v))
			hold := ci.ra + r.Range(-2, 2)
			if hold > n {
				hold = r.Range(0, n)
			}
			for i := 0; i < hold && len(xs) < n; i++ {
				if r.Chance(1, 3) {
					v += r.Range(-1, 1)
				}
				xs = append(xs, ci.raw(r, v))
			}
			if r.Bool() && len(xs) < n { // undo the jump by hand just around the reset point
				v -= jump
				xs = append(xs, ci.raw(r, v))
			}
			for i := r.Range(0, 4); i > 0 && len(xs) < n; i-- {
				xs = append(xs, ci.raw(r, v))
			}
		}
	case 6: // many wraps in the same direction: the 16-bit output itself wraps around
		s := ci.upper + r.Range(1, 3)
		if r.Bool() {
			s = ci.lower - r.Range(1, 3)
		}
		for i := 0; i < n; i++ {
			xs = append(xs, ci.raw(r, v))
			v += s
		}
	default: // steps exactly at / next to the limits, separated by flats
		for len(xs) < n {
			xs = append(xs, ci.raw(r, v))
			if r.Bool() {
				v += r.Pick([]int{ci.upper, ci.upper + 1, ci.upper - 1, ci.lower, ci.lower - 1, ci.lower + 1,
					ci.upper - q, ci.lower + q, ci.upper - q + 1, ci.lower + q - 1})
			}
		}
	}
	if len(xs) > n {
		xs = xs[:n]
	}
	return xs
}

func genCuts(r *lib.Rng, n int, ci cfgInfo) []int {
	switch r.Intn(6) {
	case 0: // a single call
		return nil
	case 1: // one sample per call at the start
		k := r.Range(1, 8)
		c := make([]int, k)
		for i := range c {
			c[i] = 1
		}
		return c
	case 2: // with empty calls
		var c []int
		left := n
		for k := r.Range(2, 8); k > 0 && left > 0; k-- {
			x := r.Pick([]int{0, 0, 1, 2, 3, left / 2})
			c = append(c, x)
			left -= x
		}
		return c
	case 3: // a cut next to the reset point
		if ci.ok && ci.ra < n {
			return []int{ci.ra + r.Range(-1, 2)}
		}
		return []int{n / 2}
	default: // 2-20 calls
		k := r.Range(1, 19)
		var c []int
		left := n
		for i := 0; i < k && left > 0; i++ {
			x := r.Range(0, 2*left/(k-i)+1)
			if x > left {
				x = left
			}
			c = append(c, x)
			left -= x
		}
		return c
	}
}

// ---------- configuration generators ----------

func genAPI(r *lib.Rng, c *Case) {
	c.Kind = "api"
	f := r.Pick([]int{13, 14, 15, 16, 16, 14, r.Range(2, 16)})
	d := r.Range(1, f-1)
	if f-d > 14 {
		d = f - 14
	}
	if r.Chance(1, 3) {
		d = r.Pick([]int{2, 4})
		if d >= f {
			d = f - 1
		}
	}
	c.F, c.D = uint64(f), uint64(d)
	c.En = !r.Chance(1, 8)
	c.Inv = r.Chance(1, 4)
	c.PS = int64(r.Pick([]int{1, 1, -1, -1, 0, 7, -7}))
	c.RA = int64(r.Pick([]int{1, 1, 2, 3, 4, 5, 8, 13, 30, 100, 20000}))
	q := 1 << (f - d)
	var b int // bias in output units
	switch r.Intn(8) {
	case 0:
		b = 0
	case 1:
		b = r.Pick([]int{q / 2, -(q / 2), q/2 - 1, -(q / 2) + 1})
	case 2:
		b = r.Pick([]int{1, -1})
	case 3:
		b = r.Pick([]int{1, -1}) * (q * 38 / 100)
	case 4: // outside half a quantum: the property's window clause does not apply, correspondence still does
		b = r.Pick([]int{q/2 + 1, -(q / 2) - 1, q/2 + 2, q - 1, -(q - 1), q, q + q/3, -q - q/3, 5*q + 7})
	default:
		b = r.Range(-(q / 2), q/2)
	}
	c.Bias = int64(b)<<d + int64(r.Intn(1<<d))
}

func genMalformedAPI(r *lib.Rng, c *Case) {
	c.Kind = "api"
	c.En = !r.Chance(1, 5)
	c.Inv = r.Chance(1, 4)
	c.PS = int64(r.Pick([]int{1, -1, 0}))
	c.RA = int64(r.Pick([]int{0, -1, 1, 3, 20000, -20000}))
	c.Bias = int64(r.Pick([]int{0, 24904, -24904, 65535, -65536, 1 << 20, -(1 << 20)}))
	switch r.Intn(12) {
	case 0:
		c.F, c.D = 16, 0
	case 1:
		c.F, c.D = 16, 1 // quantum 2^15
		c.RA = 5
	case 2:
		c.F, c.D = uint64(r.Range(17, 40)), uint64(r.Range(1, 3)) // twoPi wraps to 0
	case 3:
		c.F, c.D = uint64(r.Range(0, 16)), uint64(r.Range(0, 20))
	case 4:
		c.F, c.D = uint64(r.Range(2, 16)), 0
	case 5:
		k := r.Range(2, 16)
		c.F, c.D = uint64(k), uint64(k) // quantum 1, half quantum shift count wraps
		c.RA = 3
	case 6:
		c.F, c.D = uint64(r.Range(0, 14)), ^uint64(0) // f - d wraps to f + 1
		c.RA = 2
	case 7:
		c.F, c.D = uint64(r.Range(17, 70)), uint64(r.Range(3, 70))
	case 8:
		c.F, c.D = 14, 2
		c.Bias = int64(r.Pick([]int{1, -1})) * int64(r.U64()>>1)
		c.RA = 4
	case 9:
		c.F, c.D = 16, 4
		c.RA = int64(r.Pick([]int{1 << 40, 1<<62 + 5}))
	case 10:
		c.F, c.D = uint64(r.Range(1, 16)), uint64(r.Range(16, 70))
		c.RA = 2
	default:
		c.F, c.D = 0, uint64(r.Range(0, 3))
	}
}

func genOptions(r *lib.Rng, c *Case, kind string, malformed bool) {
	c.Kind = kind
	c.Rescale = !r.Chance(1, 6)
	c.Unwrap = c.Rescale && !r.Chance(1, 6)
	c.BiasOn = r.Bool()
	c.PS = int64(r.Pick([]int{1, 1, -1, -1, 0, 3, -2}))
	c.RA = int64(r.Pick([]int{1, 2, 3, 4, 5, 6, 10, 17, 40, 20000}))
	c.FirstChan = r.Pick([]int{0, 0, 8, 64})
	c.NChan = r.Range(1, 8)
	c.Idx = r.Intn(c.NChan)
	for k := r.Intn(4); k > 0; k-- {
		c.InvChan = append(c.InvChan, c.FirstChan+r.Range(-1, c.NChan))
	}
	if r.Chance(1, 4) {
		c.InvChan = append(c.InvChan, c.FirstChan+c.Idx)
	}
	if kind == "abaco" {
		c.Demux = r.Bool()
		c.PF = r.Pick([]int{1, 2, 3, 7, 16, 50})
		if c.Demux && r.Chance(2, 5) {
			// wide groups, mostly not a multiple of 8 or 16: any fan-out of the per-channel unwrapping over a
			// bounded number of workers must still reach every channel (seed C12-17)
			c.NChan = r.Pick([]int{9, 11, 12, 13, 17, 21, 24, 31, 33, 40})
			c.Idx = r.Intn(c.NChan)
			if r.Bool() {
				c.Idx = c.NChan - 1 - r.Intn(4)
			}
			c.InvChan = append(c.InvChan, c.FirstChan+r.Range(-1, c.NChan))
		}
	}
	if kind == "roach" {
		c.Resample = r.Bool()
	}
	if kind == "roach" && r.Chance(1, 6) {
		// each such case costs at least readPackets' 100 ms bundling window
		c.Stream = true
		c.NChan = r.Range(1, 4)
		c.Idx = r.Intn(c.NChan)
		c.PF = r.Pick([]int{1, 3, 10, 40})
	}
	if malformed {
		switch r.Intn(3) {
		case 0:
			c.Rescale, c.Unwrap = false, true // refused by isvalid
		case 1:
			c.RA = int64(r.Pick([]int{0, -1})) // the constructor panics when unwrapping is on
		default:
			c.Rescale, c.Unwrap = false, false // raw pass-through (only inversion)
		}
	}
}

func genCase(r *lib.Rng, id int64, tier string) Case {
	c := Case{ID: id}
	switch k := r.Intn(20); {
	case k < 7:
		genAPI(r, &c)
	case k < 9:
		genMalformedAPI(r, &c)
	case k < 12:
		genOptions(r, &c, "abaco", false)
	case k < 14:
		return genSourceCase(r, id)
	case k < 15:
		genOptions(r, &c, "abaco", true)
	case k < 19:
		genOptions(r, &c, "roach", false)
	default:
		genOptions(r, &c, "roach", true)
	}
	ci := c.info()
	n := r.Range(3, 120)
	if r.Chance(1, 8) {
		n = r.Range(0, 6)
	}
	if tier == "thorough" && r.Chance(1, 10) {
		n = r.Range(100, 1500)
	}
	c.Xs = genStream(r, ci, n)
	c.Cuts = genCuts(r, len(c.Xs), ci)
	if c.Stream {
		c.Cuts = nil
	}
	return c
}

// genSourceCase: 2-4 rounds on one AbacoSource object, every round with its own option set, stream and cuts,
// all on the same channel group.  Consecutive rounds are made to differ (bit drop, unwrap on/off, bias,
// pulse sign, inversion of the observed channel, reset interval); now and then a round is refused by
// Configure or makes Sample() panic (ResetAfter <= 0), and the source must still serve the next round.
func genSourceCase(r *lib.Rng, id int64) Case {
	c := Case{ID: id}
	genOptions(r, &c, "abaco", false)
	c.Kind = "abacosrc"
	c.Demux = false
	if c.PF == 0 {
		c.PF = 3
	}
	fill := func(rc *Case) {
		ci := rc.info()
		n := r.Range(2, 50)
		rc.Xs = genStream(r, ci, n)
		rc.Cuts = genCuts(r, len(rc.Xs), ci)
	}
	fill(&c)
	prev := c
	for k := r.Range(1, 3); k > 0; k-- {
		rc := Case{Kind: "abaco", FirstChan: c.FirstChan, NChan: c.NChan, Idx: c.Idx}
		genOptions(r, &rc, "abaco", r.Chance(1, 8))
		rc.FirstChan, rc.NChan, rc.Idx = c.FirstChan, c.NChan, c.Idx
		switch r.Intn(5) { // make sure something the previous round fixed is different now
		case 0:
			rc.Rescale, rc.Unwrap = !prev.Rescale, !prev.Rescale && r.Bool()
		case 1:
			rc.Rescale, rc.Unwrap = true, !prev.Unwrap
		case 2:
			rc.Rescale, rc.Unwrap, rc.BiasOn, rc.PS = true, true, !prev.BiasOn, -prev.PS
			if rc.PS == 0 {
				rc.PS = -1
			}
		case 3:
			rc.InvChan = nil
			if !prev.info().inv {
				rc.InvChan = []int{c.FirstChan + c.Idx}
			}
		default:
			rc.Rescale, rc.Unwrap = true, true
			rc.RA = prev.RA%7 + 1
		}
		fill(&rc)
		c.More = append(c.More, Round{Rescale: rc.Rescale, Unwrap: rc.Unwrap, BiasOn: rc.BiasOn, RA: rc.RA, PS: rc.PS,
			InvChan: rc.InvChan, Xs: rc.Xs, Cuts: rc.Cuts})
		prev = rc
	}
	return c
}

// longReset: a stream that stays away from home for resetAfter-1 .. resetAfter+2 samples with the
// program's real reset interval of 20000 (the only way to reach the reset through the ROACH path).
func longReset(r *lib.Rng, id int64, kind string, biasOn bool, ps int64) Case {
	c := Case{ID: id, Kind: kind, Rescale: true, Unwrap: true, BiasOn: biasOn, PS: ps, RA: 20000, NChan: 1,
		Note: "long off-home stretch around the reset interval 20000"}
	ci := c.info()
	v := r.Intn(ci.q)
	xs := []int{ci.raw(r, v)}
	jump := ci.upper + 1 + r.Intn(5)
	if r.Bool() {
		jump = ci.lower - 1 - r.Intn(5)
	}
	v += jump
	hold := 20000 + r.Range(-1, 2)
	for i := 0; i < hold; {
		x := ci.raw(r, v) // the same raw word for a long run (keeps the generated Coq term small)
		for k := r.Pick([]int{1, 2, 5000, 20000}); k > 0 && i < hold; k-- {
			xs = append(xs, x)
			i++
		}
	}
	if r.Bool() {
		v -= jump
	}
	for i := r.Range(1, 5); i > 0; i-- {
		xs = append(xs, ci.raw(r, v))
	}
	c.Xs = xs
	c.Cuts = []int{r.Pick([]int{19999, 20000, 20001, 20002, 7, 10000})}
	return c
}

// wideReset: NewPhaseUnwrapper called directly with a reset interval at or beyond 2^16 (legal: resetAfter is an
// int) and a stream that stays away from home for resetAfter-1 .. resetAfter+2 samples, cut into uneven calls.
// The stream is 7e4 .. 2e5 samples long and is carried as runs of equal raw words.
func wideReset(r *lib.Rng, id int64, ra int, minExtra int) Case {
	c := Case{ID: id, Kind: "api", En: true, RA: int64(ra), PS: int64(r.Pick([]int{1, -1})), Inv: r.Chance(1, 4),
		Note: fmt.Sprintf("off-home stretch around the reset interval %d (wider than 16 bits)", ra)}
	fd := [][2]int{{16, 4}, {14, 2}, {16, 2}, {13, 2}}[r.Intn(4)]
	c.F, c.D = uint64(fd[0]), uint64(fd[1])
	q := 1 << (fd[0] - fd[1])
	c.Bias = int64(r.Pick([]int{0, q * 38 / 100, -(q * 38 / 100), q / 2, -(q / 2)})) << c.D
	ci := c.info()
	v := r.Intn(ci.q)
	c.Runs = append(c.Runs, [2]int{r.Range(1, 3), ci.raw(r, v)})
	jump := ci.upper + 1 + r.Intn(5)
	if r.Bool() {
		jump = ci.lower - 1 - r.Intn(5)
	}
	v += jump
	hold := ra + r.Range(minExtra, 2) // minExtra = 1: the automatic reset is certainly due
	for left := hold; left > 0; {
		k := r.Pick([]int{1, 3, 1000, 20000, 65536, hold})
		if k > left {
			k = left
		}
		c.Runs = append(c.Runs, [2]int{k, ci.raw(r, v)}) // same prepared value, other dropped bits
		left -= k
	}
	if r.Bool() {
		v -= jump
	}
	c.Runs = append(c.Runs, [2]int{r.Range(1, 4), ci.raw(r, v)})
	// once more: leave home and stay away, this time not long enough for a reset
	c.Runs = append(c.Runs, [2]int{r.Range(2, 3000), ci.raw(r, v+jump)})
	switch r.Intn(3) {
	case 0:
		c.Cuts = []int{7, 65530, 3, ra / 3}
	case 1:
		c.Cuts = []int{ra + r.Range(-1, 2)}
	default:
		c.Cuts = []int{1, 0, 65535, 1, 65536, 12345}
	}
	return c
}

func corpus() []Case {
	sh := func(d uint, vs ...int) []int {
		out := make([]int, len(vs))
		for i, v := range vs {
			out[i] = (v << d) & 0xffff
		}
		return out
	}
	return []Case{
		// witnesses of the ROACH bias defect (bias level not rescaled to 14 fraction bits): a step of -4050
		// gave an output step of 46; a constant signal climbed one quantum per sample
		{Kind: "roach", Rescale: true, Unwrap: true, BiasOn: true, PS: 1, RA: 20000, NChan: 1, Xs: sh(2, 4090, 40), Note: "roach-bias witness"},
		{Kind: "roach", Rescale: true, Unwrap: true, BiasOn: true, PS: 1, RA: 20000, NChan: 1, Xs: sh(2, 0, 0, 0, 0), Cuts: []int{2}},
		{Kind: "roach", Rescale: true, Unwrap: true, BiasOn: true, PS: -1, RA: 20000, NChan: 1, Xs: sh(2, 100, 100, 100, 101), Cuts: []int{1, 1}},
		// the same constructor arguments given directly (bias outside half a quantum: only correspondence applies)
		{Kind: "api", F: 14, D: 2, En: true, Bias: 24904, RA: 20000, PS: 1, Xs: sh(2, 4090, 40)},
		// Abaco option sets
		{Kind: "abaco", Rescale: true, Unwrap: true, BiasOn: true, PS: 1, RA: 3, NChan: 2, Idx: 1, Xs: sh(4, 0, 3700, 3700, 3700, 3700, 3700, 100, 4000), Cuts: []int{3, 2}},
		{Kind: "abaco", Rescale: true, Unwrap: true, BiasOn: true, PS: -1, RA: 2, NChan: 2, Idx: 0, InvChan: []int{0}, Xs: sh(4, 0, 500, 1000, 4000, 4000, 4000, 4000), Cuts: []int{1, 0, 4}},
		{Kind: "abaco", Rescale: true, Unwrap: false, PS: 1, RA: 5, NChan: 1, Xs: []int{0, 15, 16, 65535, 4096, 32768}, Cuts: []int{2, 2}},
		{Kind: "abaco", Rescale: false, Unwrap: false, PS: 1, RA: 5, NChan: 3, Idx: 2, FirstChan: 8, InvChan: []int{10}, Xs: []int{0, 1, 65535, 32768, 12345}},
		{Kind: "abaco", Rescale: false, Unwrap: true, PS: 1, RA: 5, NChan: 1, Xs: []int{1, 2, 3}},
		{Kind: "abaco", Rescale: true, Unwrap: true, PS: 1, RA: 0, NChan: 1, Xs: []int{1, 2, 3}},
		// one AbacoSource: raw pass-through run, then reconfigured to rescale + unwrap (+ inversion), then back
		{Kind: "abacosrc", Rescale: false, Unwrap: false, PS: 1, RA: 5, FirstChan: 8, NChan: 2, Idx: 0, PF: 2,
			Xs: []int{1600, 1616, 1632, 1648}, Cuts: []int{2},
			More: []Round{
				{Rescale: true, Unwrap: true, RA: 20000, PS: 1, Xs: []int{1600, 1616, 1632, 1648}, Cuts: []int{1, 1}},
				{Rescale: true, Unwrap: true, BiasOn: true, RA: 2, PS: -1, InvChan: []int{8}, Xs: []int{0, 60000, 60000, 60000, 60000, 100}},
				{Rescale: false, Unwrap: false, PS: 1, RA: 5, Xs: []int{7, 65535, 12}},
			}},
		// TestUnwrap's biased sequence (f=16, d=2, bias 10000)
		{Kind: "api", F: 16, D: 2, En: true, Bias: 10000, RA: 100, PS: 1,
			Xs: []int{20000, 20080, 20120, 20100, 20100, 64100, 64100, 38564, 38564, 10564, 10564, 36100}, Cuts: []int{5, 1}},
		// steps exactly on the limits, f=13 d=2 (q = 2048, limits -1024/1024)
		{Kind: "api", F: 13, D: 2, En: true, Bias: 0, RA: 4, PS: -1, Xs: sh(2, 0, 1024, 0, 1025, 1, 1025, 1025, 1025, 1025, 1025, 1025), Cuts: []int{4, 4}},
		// constructor refusals and the wraps of its uint arithmetic
		{Kind: "api", F: 13, D: 0, En: true, RA: 5, PS: 1, Xs: []int{1}},
		{Kind: "api", F: 13, D: 2, En: true, RA: -1, PS: 1, Xs: []int{1}},
		{Kind: "api", F: 18, D: 2, En: true, RA: 5, PS: 1, Xs: []int{1, 2}},
		{Kind: "api", F: 14, D: 0, En: false, RA: 5, PS: 1, Inv: true, Xs: []int{0, 1, 65535, 16384}},
	}
}

func gen(seed uint64, tier string) []interface{} {
	r := lib.NewRng(seed)
	n := 430
	if tier == "thorough" {
		n = 6000
	}
	var out []interface{}
	id := int64(1)
	for _, c := range corpus() {
		c.ID = id
		id++
		out = append(out, c)
	}
	for i := 0; i < n; i++ {
		out = append(out, genCase(r.Fork(), id, tier))
		id++
	}
	// the long streams go last: if something is wrong, shorter cases are reported (and shrunk) first
	rl := lib.NewRng(seed ^ 0x5bd1e995)
	out = append(out, longReset(rl.Fork(), id, "roach", rl.Bool(), int64(rl.Pick([]int{1, -1}))))
	id++
	out = append(out, longReset(rl.Fork(), id, "abaco", rl.Bool(), int64(rl.Pick([]int{1, -1}))))
	id++
	// reset intervals around and beyond 2^16
	wide := []int{65535 + rl.Intn(2), rl.Pick([]int{65536, 70000})}
	if tier == "thorough" {
		wide = []int{65534, 65535, 65536, 65537, 70000, 100000, 131072, 200000}
	}
	for i, ra := range wide {
		minExtra := -1
		if i%2 == 0 {
			minExtra = 1
		}
		out = append(out, wideReset(rl.Fork(), id, ra, minExtra))
		id++
	}
	if tier == "thorough" {
		for i := 0; i < 12; i++ {
			out = append(out, longReset(rl.Fork(), id, []string{"roach", "abaco"}[rl.Intn(2)], rl.Bool(), int64(rl.Pick([]int{1, -1}))))
			id++
		}
	}
	return out
}

// ---------- running a case on the implementation ----------

type observed struct {
	Built  string  `json:"built"` // ok | panic | rejected
	Single []int   `json:"single,omitempty"`
	Split  [][]int `json:"split,omitempty"`
	// long outputs are recorded run-length encoded ([count, value]) with the lengths of the calls' outputs
	SingleRuns [][2]int `json:"single_runs,omitempty"`
	SplitRuns  [][2]int `json:"split_runs,omitempty"`
	SplitLens  []int    `json:"split_lens,omitempty"`
}

func rleOf(xs []int) [][2]int {
	var out [][2]int
	for i := 0; i < len(xs); {
		j := i
		for j < len(xs) && xs[j] == xs[i] {
			j++
		}
		out = append(out, [2]int{j - i, xs[i]})
		i = j
	}
	return out
}

// compact replaces long output arrays by their run-length encoding (for impl.jsonl / replay files only).
func (o observed) compact() observed {
	if len(o.Single) < 5000 {
		return o
	}
	c := observed{Built: o.Built, SingleRuns: rleOf(o.Single)}
	var all []int
	for _, s := range o.Split {
		c.SplitLens = append(c.SplitLens, len(s))
		all = append(all, s...)
	}
	c.SplitRuns = rleOf(all)
	return c
}

func (c *Case) construct() (u *dastard.PhaseUnwrapper, built string, err error) {
	defer func() {
		if e := recover(); e != nil {
			u, built, err = nil, "panic", nil
		}
	}()
	switch c.Kind {
	case "api":
		return dastard.NewPhaseUnwrapper(uint(c.F), uint(c.D), c.En, int(c.Bias), int(c.RA), int(c.PS), c.Inv), "ok", nil
	case "abaco":
		nchan := c.NChan
		if nchan < 1 {
			nchan = 1
		}
		u, e := dastard.VerifC12AbacoUnwrapper(c.options(), c.FirstChan, nchan, c.Idx)
		if e != nil {
			return nil, "rejected", nil
		}
		return u, "ok", nil
	case "roach":
		var u *dastard.PhaseUnwrapper
		var rej bool
		var e error
		if c.Resample {
			// a device that was sampled and used before: leave home, then some of the case's own stream
			junk := append([]uint16{0, 30000, 30000}, otherChannel(c.Xs, 3)...)
			u, rej, e = dastard.VerifC12RoachUnwrapperResampled(c.options(), junk)
		} else {
			u, rej, e = dastard.VerifC12RoachUnwrapper(c.options())
		}
		if rej {
			return nil, "rejected", nil
		}
		if e != nil {
			return nil, "", e
		}
		return u, "ok", nil
	}
	return nil, "", fmt.Errorf("unknown kind %q", c.Kind)
}

func chunksOf(xs []int, cuts []int) [][]int {
	var out [][]int
	pos := 0
	for _, k := range cuts {
		if k < 0 {
			k = 0
		}
		if k > len(xs)-pos {
			k = len(xs) - pos
		}
		out = append(out, xs[pos:pos+k])
		pos += k
	}
	if pos < len(xs) || len(out) == 0 {
		out = append(out, xs[pos:])
	}
	return out
}

func unwrap(u *dastard.PhaseUnwrapper, xs []int) []int {
	data := make([]dastard.RawType, len(xs))
	for i, x := range xs {
		data[i] = dastard.RawType(x)
	}
	u.UnwrapInPlace(&data)
	out := make([]int, len(data))
	for i, y := range data {
		out[i] = int(y)
	}
	return out
}

// zlist renders a list of numbers; long lists with long constant runs are rendered run-length encoded
// (Run.v: rle) because Coq parses numerals slowly.
func zlist(xs []int) string {
	if len(xs) < 200 {
		return lib.ZListInt(xs)
	}
	var runs []string
	for i := 0; i < len(xs); {
		j := i
		for j < len(xs) && xs[j] == xs[i] {
			j++
		}
		runs = append(runs, fmt.Sprintf("(%d,%d)", j-i, xs[i]))
		i = j
	}
	if 2*len(runs) > len(xs) {
		return lib.ZListInt(xs)
	}
	return "(rle [" + strings.Join(runs, ";") + "])"
}

func zlistlist(xss [][]int) string {
	parts := make([]string, len(xss))
	for i, xs := range xss {
		parts[i] = zlist(xs)
	}
	return "[" + strings.Join(parts, ";") + "]"
}

func (c *Case) kindTerm() string {
	opt := func() string {
		return fmt.Sprintf("(Opt %s %s %s %s %s %s)", lib.B(c.Rescale), lib.B(c.Unwrap), lib.B(c.BiasOn),
			lib.Z(c.RA), lib.Z(c.PS), lib.ZListInt(c.InvChan))
	}
	switch c.Kind {
	case "api":
		return fmt.Sprintf("(KApi %s %s %s %s %s %s %s)", lib.ZU(c.F), lib.ZU(c.D), lib.B(c.En), lib.Z(c.Bias),
			lib.Z(c.RA), lib.Z(c.PS), lib.B(c.Inv))
	case "abaco":
		return fmt.Sprintf("(KAbaco %s %s %s)", opt(), lib.Z(int64(c.FirstChan)), lib.Z(int64(c.Idx)))
	default:
		return fmt.Sprintf("(KRoach %s)", opt())
	}
}

// otherChannel derives the stream of another channel of the group from the case's stream (deterministic,
// so that shrinking the case keeps all channels consistent).
func otherChannel(xs []int, ch int) []uint16 {
	out := make([]uint16, len(xs))
	for i, x := range xs {
		out[i] = uint16(x + 7919*(ch+1)*(i+1) + 12345*ch)
	}
	return out
}

// runDemux runs the case through AbacoGroup.demuxData: every channel of the group gets a stream (channel
// Idx gets the case's stream), once as a single call and once cut into the case's calls.
func (c *Case) runDemux(chunks [][]int, src *dastard.VerifC12AbacoSource) (built string, single []int, split [][]int, err error) {
	defer func() {
		if e := recover(); e != nil {
			built, single, split, err = "panic", nil, nil, nil
		}
	}()
	mkCalls := func(pieces [][]int) [][][]uint16 {
		calls := make([][][]uint16, len(pieces))
		pos := 0
		for k, piece := range pieces {
			calls[k] = make([][]uint16, c.NChan)
			for ch := 0; ch < c.NChan; ch++ {
				if ch == c.Idx {
					calls[k][ch] = make([]uint16, len(piece))
					for i, x := range piece {
						calls[k][ch][i] = uint16(x)
					}
				} else {
					calls[k][ch] = otherChannel(c.Xs, ch)[pos : pos+len(piece)]
				}
			}
			pos += len(piece)
		}
		return calls
	}
	toInts := func(xs []uint16) []int {
		out := make([]int, len(xs))
		for i, x := range xs {
			out[i] = int(x)
		}
		return out
	}
	// run = build the group(s) afresh for the case's options and push the calls through demuxData
	run := func(calls [][][]uint16) ([][][]uint16, error) {
		return dastard.VerifC12AbacoDemux(c.options(), c.FirstChan, c.NChan, calls, c.PF)
	}
	if src != nil {
		// the long-lived source: Configure once for this round, then every run starts with the real Sample()
		if e := src.Configure(c.options()); e != nil {
			return "rejected", nil, nil, nil
		}
		run = func(calls [][][]uint16) ([][][]uint16, error) {
			return src.SampleAndDemux(c.FirstChan, c.NChan, calls, c.PF)
		}
	}
	o1, e := run(mkCalls([][]int{c.Xs}))
	if e == dastard.ErrVerifC12Rejected {
		return "rejected", nil, nil, nil
	}
	if e != nil {
		return "", nil, nil, e
	}
	o2, e := run(mkCalls(chunks))
	if e != nil {
		return "", nil, nil, e
	}
	single = toInts(o1[0][c.Idx])
	split = make([][]int, len(chunks))
	for k := range chunks {
		split[k] = toInts(o2[k][c.Idx])
	}
	return "ok", single, split, nil
}

// runRoachStream sends the case's stream (channel Idx; the other channels get derived streams) as UDP
// packets to a RoachDevice and returns channel Idx's concatenated block output.
func (c *Case) runRoachStream() (built string, single []int, err error) {
	data := make([][]uint16, c.NChan)
	for ch := range data {
		if ch == c.Idx {
			data[ch] = make([]uint16, len(c.Xs))
			for i, x := range c.Xs {
				data[ch][i] = uint16(x)
			}
		} else {
			data[ch] = otherChannel(c.Xs, ch)
		}
	}
	var out [][]uint16
	var rej bool
	for attempt := 0; attempt < 3; attempt++ {
		out, rej, err = dastard.VerifC12RoachStream(c.options(), data, c.PF)
		if err == nil {
			break
		}
	}
	if err != nil {
		return "", nil, err
	}
	if rej {
		return "rejected", nil, nil
	}
	single = make([]int, len(out[c.Idx]))
	for i, v := range out[c.Idx] {
		single[i] = int(v)
	}
	return "ok", single, nil
}

// runCase runs all rounds of a case (one, except for kind "abacosrc").
func runCase(c Case) (lib.Result, error) {
	hc := c
	hc.ID, hc.Note = 0, ""
	hash := lib.Hash(hc)
	for _, run := range c.Runs {
		for k := 0; k < run[0] && len(c.Xs) < 1<<20; k++ {
			c.Xs = append(c.Xs, run[1])
		}
	}
	c.Runs = nil
	if c.Kind != "abacosrc" {
		res, _, err := runRound(c, nil)
		res.Hash = hash
		if err == nil {
			res.Term = "mk " + res.Term
		}
		return res, err
	}
	src, err := dastard.VerifC12NewAbacoSource()
	if err != nil {
		return lib.Result{ID: c.ID}, err
	}
	rounds := []Round{{Rescale: c.Rescale, Unwrap: c.Unwrap, BiasOn: c.BiasOn, RA: c.RA, PS: c.PS, InvChan: c.InvChan, Xs: c.Xs, Cuts: c.Cuts}}
	rounds = append(rounds, c.More...)
	out := lib.Result{ID: c.ID, Hash: hash}
	tagset := map[string]bool{"kind-abacosrc": true, fmt.Sprintf("source-rounds-%d", len(rounds)): true}
	var terms []string
	var obs []observed
	okRounds := 0
	for _, rd := range rounds {
		rc := Case{ID: c.ID, Kind: "abaco", Demux: true, PF: c.PF, FirstChan: c.FirstChan, NChan: c.NChan, Idx: c.Idx,
			Rescale: rd.Rescale, Unwrap: rd.Unwrap, BiasOn: rd.BiasOn, RA: rd.RA, PS: rd.PS, InvChan: rd.InvChan,
			Xs: append([]int(nil), rd.Xs...), Cuts: rd.Cuts}
		res, ob, err := runRound(rc, src)
		if err != nil {
			return out, err
		}
		terms = append(terms, "rd "+res.Term)
		obs = append(obs, ob)
		for _, t := range res.Tags {
			if t != "kind-abaco" && t != "abaco-demux" {
				tagset[t] = true
			}
		}
		if ob.Built == "ok" {
			okRounds++
		}
		out.NonTrivial = out.NonTrivial || res.NonTrivial
	}
	out.NonTrivial = out.NonTrivial && okRounds >= 2
	out.Term = "mkr " + lib.List(terms)
	out.Impl = obs
	for t := range tagset {
		out.Tags = append(out.Tags, t)
	}
	sort.Strings(out.Tags)
	return out, nil
}

// runRound runs one round on the implementation; the Term of the result is "<kind> <chunks> <obs>" (the
// caller prefixes mk / rd).  src != nil: the round goes through that long-lived AbacoSource.
func runRound(c Case, src *dastard.VerifC12AbacoSource) (lib.Result, observed, error) {
	for i := range c.Xs {
		c.Xs[i] &= 0xffff
	}
	if c.Kind == "abaco" || c.Stream {
		if c.NChan < 1 {
			c.NChan = 1
		}
		if c.Idx < 0 || c.Idx >= c.NChan {
			c.Idx = 0
		}
	}
	if c.Kind == "roach" && c.Stream {
		// readPackets decides where the blocks end (timing); the case is rendered as one call on the whole
		// stream, which by the property gives the same output as any other cut
		c.Cuts = nil
	}
	res := lib.Result{ID: c.ID}
	chunks := chunksOf(c.Xs, c.Cuts)
	tags := map[string]bool{"kind-" + c.Kind: true}
	if c.Kind == "roach" && c.Resample && !c.Stream {
		tags["roach-resampled-device"] = true
	}
	ci := c.info()

	var ob observed
	var u1 *dastard.PhaseUnwrapper
	var built string
	var err error
	viaSource := (c.Kind == "abaco" && c.Demux) || (c.Kind == "roach" && c.Stream)
	if c.Kind == "abaco" && c.Demux {
		tags["abaco-demux"] = true
		built, ob.Single, ob.Split, err = c.runDemux(chunks, src)
		if built == "ok" {
			// a second construction by the direct route, only to read the limits for the tags below
			u1, _, _ = c.construct()
		}
	} else if c.Kind == "roach" && c.Stream {
		tags["roach-readpackets"] = true
		built, ob.Single, err = c.runRoachStream()
		if built == "ok" {
			ob.Split = [][]int{ob.Single}
			u1, _, err = c.construct()
		}
	} else {
		u1, built, err = c.construct()
	}
	if err != nil {
		return res, ob, err
	}
	ob.Built = built
	var obsTerm string
	switch built {
	case "panic":
		obsTerm = "panicked"
		tags["constructor-panic"] = true
	case "rejected":
		obsTerm = "rejected"
		tags["options-rejected"] = true
	default:
		if !viaSource {
			ob.Single = unwrap(u1, c.Xs)
			u2, b2, err := c.construct()
			if err != nil {
				return res, ob, err
			}
			if b2 != "ok" {
				return res, ob, fmt.Errorf("construction is not repeatable: %s then %s", built, b2)
			}
			ob.Split = make([][]int, len(chunks))
			for i, ch := range chunks {
				ob.Split[i] = unwrap(u2, ch)
			}
		}
		obsTerm = fmt.Sprintf("(ok %s %s)", zlist(ob.Single), zlistlist(ob.Split))
	}
	res.Term = fmt.Sprintf("%s %s %s", c.kindTerm(), zlistlist(chunks), obsTerm)
	res.Impl = ob.compact()
	res.Heavy = len(c.Xs) >= 50000

	// tags / non-triviality (bookkeeping only; the verdict is computed in Coq)
	if len(chunks) >= 2 {
		tags["split-calls"] = true
	}
	for _, ch := range chunks {
		if len(ch) == 0 {
			tags["empty-call"] = true
		}
	}
	if ci.inv {
		tags["inverted"] = true
	}
	wraps, resets := 0, 0
	if built == "ok" {
		switch {
		case ci.ok:
			tags["unwrap-on"] = true
			lo, hi, _, _, _ := u1.VerifC12Limits()
			if lo > 1 || hi < -1 {
				tags["bias-outside-half-quantum"] = true
			} else if lo+hi != 0 {
				tags["biased"] = true
			}
			if c.PS <= 0 {
				tags["pulse-sign-nonpositive"] = true
			}
			mask := 0xffff >> (16 - ci.f)
			prevOff, away := ci.home, 0
			for i, x := range c.Xs {
				if ci.inv {
					x ^= 0xffff
				}
				v := (x & mask) >> ci.d
				off := (ob.Single[i] - v) & 0xffff
				if off != prevOff {
					if away >= ci.ra && off == ci.home {
						resets++
					} else {
						wraps++
					}
				}
				if off == ci.home {
					away = 0
				} else {
					away++
				}
				prevOff = off
			}
			if wraps > 0 {
				tags["wrap-removed"] = true
			}
			if resets > 0 {
				tags["reset-fired"] = true
			}
			if wraps >= 17 {
				tags["output-wraps-16bit"] = true
			}
		case ci.enabled:
			tags["unwrap-on-outside-domain"] = true
		case c.info().d == 0 && (c.Kind != "api" || c.D == 0):
			tags["passthrough-no-drop"] = true
		default:
			tags["unwrap-off-bit-drop"] = true
		}
	}
	if len(c.Xs) >= 10000 {
		tags["long-stream"] = true
	}
	if ci.ok && ci.ra >= 65535 {
		tags["reset-interval-beyond-16-bits"] = true
	}
	res.NonTrivial = built == "ok" && ci.ok && wraps > 0 && len(chunks) >= 2
	for t := range tags {
		res.Tags = append(res.Tags, t)
	}
	sort.Strings(res.Tags)
	return res, ob, nil
}

func main() {
	h := lib.Harness{
		Gen: gen,
		RunCase: func(raw json.RawMessage) (lib.Result, error) {
			var c Case
			if err := json.Unmarshal(raw, &c); err != nil {
				return lib.Result{}, err
			}
			return runCase(c)
		},
		Header:   "From Dastard Require Import Common.ZX Common.CaseLib C12.Model C12.Run.",
		Verdict:  "verdict",
		PerShard: 40,
	}
	h.Main()
}
