// C20 harness: run-log side files. Histories of blocks (external-trigger counts, dropped frames, first frame)
// interleaved with write-control and state-label requests; after every STOP that ends a run the three side
// files of that run are read back from the scratch directory.
package main

import (
	"encoding/json"
	"fmt"
	"os"
	"sort"
	"strings"
	"time"

	"verifharness/cmd/c06/drv"
	"verifharness/lib"
)

// genBurst: a block whose external-trigger list is longer than any file buffer (a run of consecutive counts,
// rendered compactly), n around the 512-count = 4096-byte boundary or well above it.
func genBurst(r *lib.Rng, frame *int64) drv.Op {
	o := drv.Op{Op: "BLK"}
	*frame += int64(r.Range(1, 1000))
	o.First = *frame
	n := r.Pick([]int{511, 512, 513, 514, 600, 700, 1023, 1025, 1500, 2000})
	v := *frame * 64
	for i := 0; i < n; i++ {
		o.Ext = append(o.Ext, v+int64(i))
	}
	*frame += int64(n/64 + 1)
	return o
}

func genBlock(r *lib.Rng, frame *int64) drv.Op {
	o := drv.Op{Op: "BLK"}
	*frame += int64(r.Range(1, 1000))
	o.First = *frame
	switch r.Intn(6) {
	case 0, 1:
	case 2:
		o.Ext = []int64{*frame*64 + int64(r.Intn(64))}
	default:
		n := r.Range(1, 5)
		v := *frame * 64
		for i := 0; i < n; i++ {
			v += int64(r.Range(0, 300))
			o.Ext = append(o.Ext, v)
		}
		if r.Chance(1, 6) { // arbitrary values: negative, huge, repeated
			o.Ext = append(o.Ext, []int64{-1, 0, 1 << 62, -(1 << 63), o.Ext[0]}[r.Intn(5)])
		}
	}
	if r.Chance(1, 3) {
		o.Drops = r.Pick([]int{1, 2, 7, 100, 99999999, 123456789012})
	}
	if r.Chance(1, 20) {
		o.First = []int64{0, -5, 1 << 40, 999999999999}[r.Intn(4)]
	}
	if r.Chance(1, 3) {
		o.TickDrop = true
	}
	if r.Chance(1, 3) {
		o.TickExt = true
	}
	if r.Chance(1, 6) { // a read that came back without a whole frame: no samples, but the side information counts
		o.Empty = true
		if len(o.Ext) == 0 && o.Drops == 0 {
			if r.Bool() {
				o.Ext = []int64{*frame*64 + 1, *frame*64 + 2}
			} else {
				o.Drops = r.Range(1, 50)
			}
		}
	}
	return o
}

func genCase(r *lib.Rng, id int64, tier string) drv.Case {
	nchan := r.Range(1, 3)
	c := drv.Case{ID: id, Map: -1, Base: r.Pick([]int{1, 1, 1, 2})}
	for i := 0; i < nchan; i++ {
		c.Proj = append(c.Proj, r.Bool())
	}
	if r.Chance(1, 5) {
		c.Pre = [][]int{{0, 2}, nil}
	}
	nops := r.Range(8, 40)
	if tier == "thorough" {
		nops = r.Range(8, 150)
	}
	var frame int64
	active := false // generator's guess only (steers the mix; the harness never relies on it)
	var lastExt *int64
	bursts := 0
	if r.Chance(1, 6) {
		bursts = r.Range(1, 3) // this history mixes up to 3 long trigger lists with the small ones
	}
	for len(c.Ops) < nops {
		k := r.Intn(100)
		switch {
		case k < 40:
			if bursts > 0 && active && r.Chance(1, 3) {
				c.Ops = append(c.Ops, genBurst(r, &frame))
				bursts--
			} else {
				o := genBlock(r, &frame)
				// a list that begins with the count the previous list ended with (both must be recorded)
				if len(o.Ext) > 0 && lastExt != nil && r.Chance(1, 3) {
					o.Ext[0] = *lastExt
				}
				c.Ops = append(c.Ops, o)
			}
			if e := c.Ops[len(c.Ops)-1].Ext; len(e) > 0 {
				v := e[len(e)-1]
				lastExt = &v
			}
		case k < 52:
			o := drv.GenWC(r, 0, true)
			if r.Chance(3, 4) && !o.L22 && !o.L3 {
				o.L22 = true
			}
			c.Ops = append(c.Ops, o)
			active = true
		case k < 62:
			if active || r.Chance(1, 3) {
				c.Ops = append(c.Ops, drv.GenWC(r, 1, true))
				active = false
			}
		case k < 68:
			c.Ops = append(c.Ops, drv.GenWC(r, 2, true))
		case k < 72:
			c.Ops = append(c.Ops, drv.GenWC(r, 3, true))
		case k < 80:
			c.Ops = append(c.Ops, drv.GenWC(r, 4, true))
		case k < 84:
			c.Ops = append(c.Ops, drv.GenWC(r, 5, true))
		case k < 90 && k >= 84:
			// a label with a caller-supplied time stamp: hours in the past or in the future, in no particular order
			off := int64(r.Pick([]int{-7200, -3600, -5400, 3600, 7200, 5400, 86400, -86400})) * 1000000000
			off += int64(r.Intn(1000))
			l := drv.GenLabel(r)
			if r.Chance(1, 10) {
				l = "two\nlines"
			}
			c.Ops = append(c.Ops, drv.Op{Op: "TLABEL", Off: off, Label: l})
		case k < 97:
			l := drv.GenLabel(r)
			if r.Chance(1, 8) {
				l = ""
			} else if r.Chance(1, 10) {
				l = []string{"two\nlines", "cr\rlf", "end\n", "\n"}[r.Intn(4)]
			}
			c.Ops = append(c.Ops, drv.Op{Op: "LABEL", Label: l})
		default:
			c.Ops = append(c.Ops, drv.Op{Op: "PUB", Ch: r.Intn(nchan), N: r.Range(1, 3)})
		}
	}
	if r.Chance(3, 4) {
		c.Ops = append(c.Ops, drv.Op{Op: "WC", Req: "STOP"})
	}
	return c
}

func corpus() []drv.Case {
	st := drv.Op{Op: "WC", Req: "START", L22: true}
	wc := func(s string) drv.Op { return drv.Op{Op: "WC", Req: s} }
	lb := func(s string) drv.Op { return drv.Op{Op: "LABEL", Label: s} }
	blk := func(first int64, drops int, ext ...int64) drv.Op {
		return drv.Op{Op: "BLK", First: first, Drops: drops, Ext: ext}
	}
	tl := func(sec int64, l string) drv.Op { return drv.Op{Op: "TLABEL", Off: sec * 1000000000, Label: l} }
	tick := func(o drv.Op) drv.Op { o.TickDrop, o.TickExt = true, true; return o }
	eblk := func(first int64, drops int, ext ...int64) drv.Op {
		return drv.Op{Op: "BLK", First: first, Drops: drops, Ext: ext, Empty: true}
	}
	run := func(first int64, n int, from int64) drv.Op {
		o := drv.Op{Op: "BLK", First: first}
		for i := 0; i < n; i++ {
			o.Ext = append(o.Ext, from+int64(i))
		}
		return o
	}
	p := []bool{true, false}
	return []drv.Case{
		// two runs with events in each and events outside any run
		{Proj: p, Base: 1, Map: -1, Ops: []drv.Op{blk(10, 3, 1, 2), lb("early"), st, blk(20, 0, 5, 6, 7), lb("A"), blk(30, 4), wc("PAUSE"), blk(40, 0, 9),
			wc("UNPAUSE B"), blk(50, 1, 11), wc("STOP"), blk(60, 2, 12), lb("between"), st, lb("C"), blk(70, 0, 13), wc("STOP")}},
		// a run without external triggers and without drops: only the state file exists
		{Proj: p, Base: 1, Map: -1, Ops: []drv.Op{st, blk(5, 0), wc("STOP"), st, blk(6, 0), blk(7, 9), wc("STOP")}},
		// multi-line labels must be rejected (refuted pre-fix), empty label, label requests that fail leave no line
		{Proj: p, Base: 1, Map: -1, Ops: []drv.Op{st, lb("two\nlines"), lb(""), wc("UNPAUSE x\ny"), lb("ok, fine"), wc("UNPAUSEbad"), wc("STOP")}},
		// long external-trigger lists (more than one 4096-byte buffer) mixed with short ones inside one run
		{Proj: p, Base: 1, Map: -1, Ops: []drv.Op{st, blk(10, 0, 1, 2, 3), blk(20, 0), run(30, 700, 5000), blk(40, 1, 9001, 9002), run(50, 1500, 20000), blk(60, 0, 30001, 30002, 30003, 30004, 30005), wc("STOP"),
			st, run(70, 513, 40000), wc("STOP"), st, blk(80, 0, 7), run(90, 512, 50000), run(91, 2000, 60000), blk(92, 0, 8), wc("STOP")}},
		// labels with supplied time stamps that are not monotone (past after future, future before server-stamped ones)
		{Proj: p, Base: 1, Map: -1, Ops: []drv.Op{tl(3600, "ahead"), st, lb("A"), tl(-3600, "stale"), lb("B"), tl(7200, "ahead"), lb("C"), tl(3600, "less ahead"), wc("UNPAUSE D"), wc("STOP"),
			st, tl(-1, "x"), wc("STOP")}},
		// a list whose first count repeats the last count of the previous list; flush ticks due at dropping blocks
		{Proj: p, Base: 1, Map: -1, Ops: []drv.Op{st, blk(10, 0, 5, 6, 7), blk(20, 0, 7, 8), blk(30, 0), blk(40, 0, 8), tick(blk(50, 3, 8, 8)), wc("STOP"),
			st, tick(blk(60, 2)), tick(blk(70, 1, 9)), blk(80, 4), wc("STOP")}},
		// blocks without samples still deliver their external-trigger counts and drop reports
		{Proj: p, Base: 1, Map: -1, Ops: []drv.Op{st, blk(10, 0, 11, 22), eblk(20, 0, 33, 44), blk(30, 0, 55), eblk(40, 7), eblk(50, 0), eblk(60, 2, 66), wc("STOP"),
			eblk(70, 3, 77), st, eblk(80, 1, 88), wc("STOP")}},
		{Proj: []bool{false}, Base: 1, Map: -1, Ops: []drv.Op{st, eblk(5, 4, 1, 2, 3), wc("STOP")}},
		// STOP while idle, START rejected while active, labels equal to START / STOP
		{Proj: p, Base: 1, Map: -1, Ops: []drv.Op{wc("STOP"), st, st, lb("STOP"), lb("START"), blk(1, 1, -1, 1<<62), wc("stop"), wc("STOP")}},
	}
}

func gen(seed uint64, tier string) []interface{} {
	r := lib.NewRng(seed)
	n := 300
	if tier == "thorough" {
		n = 4000
	}
	var out []interface{}
	id := int64(1)
	for _, c := range corpus() {
		c.ID = id
		id++
		out = append(out, c)
	}
	for i := 0; i < n; i++ {
		out = append(out, genCase(r.Fork(), id, tier))
		id++
	}
	return out
}

func optZList(present bool, xs []int64) string {
	if !present {
		return "None"
	}
	return "(Some " + drv.CompactZList(xs) + ")"
}

func filesTerm(f *drv.SideFiles) string {
	if f == nil {
		return "NoF"
	}
	drop := "None"
	if f.DropPresent {
		it := make([]string, len(f.Drop))
		for i, d := range f.Drop {
			it[i] = fmt.Sprintf("(%s,%s)", lib.Z(d[0]), lib.Z(d[1]))
		}
		drop = "(Some " + lib.List(it) + ")"
	}
	state := "None"
	if f.StatePresent {
		it := make([]string, len(f.Labels))
		for i, l := range f.Labels {
			st := int64(0)
			if i < len(f.Stamps) {
				st = f.Stamps[i]
			}
			it[i] = fmt.Sprintf("(%s,%s)", lib.Z(st), drv.StrTerm(l))
		}
		state = "(Some " + lib.List(it) + ")"
	}
	return fmt.Sprintf("(Fs %s %s %s %s)", optZList(f.ExtPresent, f.Ext), drop, state, lib.B(f.FormatOK))
}

type stepOut struct {
	Op    string         `json:"op"`
	OK    bool           `json:"ok"`
	Err   string         `json:"err,omitempty"`
	Files *drv.SideFiles `json:"files,omitempty"`
}

func runOnce(c drv.Case) (lib.Result, bool) {
	res := lib.Result{ID: c.ID, Hash: lib.Hash(struct {
		P []bool
		B int
		R [][]int
		M int
		O []drv.Op
	}{c.Proj, c.Base, c.Pre, c.Map, c.Ops})}
	s, err := drv.NewSession(&c)
	if err != nil {
		panic(err)
	}
	defer s.Close()
	tags := map[string]bool{}
	var terms []string
	var outs []stepOut
	spansWithEvents, eventsOutside := 0, false
	inSpan, spanEvents := false, false
ops:
	for _, o := range c.Ops {
		switch o.Op {
		case "WC", "LABEL":
			before := s.Reported()
			var ob drv.ReqObs
			if o.Op == "WC" {
				ob = s.WC(o)
			} else {
				ob = s.Label(o)
			}
			if ob.Hung {
				if o.Op == "WC" {
					terms = append(terms, fmt.Sprintf("WqX %s %d %s %s %s", drv.StrTerm(o.Req), o.Path, lib.B(o.L22), lib.B(o.L3), lib.B(o.OFF)))
				} else {
					terms = append(terms, fmt.Sprintf("LqX %s", drv.StrTerm(o.Label)))
				}
				outs = append(outs, stepOut{Op: o.Op, Err: "request never answered"})
				tags["request-never-answered"] = true
				break ops
			}
			var files *drv.SideFiles
			if before.Pattern != "" && strings.Count(before.Pattern, "%s") == 2 && !ob.Rep.Active {
				f := s.ReadSideFiles(before.Pattern)
				files = &f
				tags["span-closed"] = true
				if f.ExtPresent {
					tags["ext-file"] = true
				}
				if f.DropPresent {
					tags["drop-file"] = true
				}
				if len(f.Labels) > 2 {
					tags["state-labels"] = true
				}
				if inSpan && spanEvents {
					spansWithEvents++
				}
				inSpan, spanEvents = false, false
			}
			if o.Op == "WC" {
				terms = append(terms, fmt.Sprintf("Wq %s %d %s %s %s %s %s %s", drv.StrTerm(o.Req), o.Path, lib.B(o.L22), lib.B(o.L3), lib.B(o.OFF),
					lib.B(ob.OK), filesTerm(files), lib.B(ob.Closed)))
				if ob.OK && ob.Rep.Active && !before.Active {
					inSpan, spanEvents = true, false
				}
				if ob.OK && len(o.Req) > 8 && before.Active {
					spanEvents = true
					tags["unpause-label-ok"] = true
				}
			} else {
				terms = append(terms, fmt.Sprintf("Lq %s %s %s %s", drv.StrTerm(o.Label), lib.B(ob.OK), filesTerm(files), lib.B(ob.Closed)))
				if ob.OK {
					spanEvents = true
					tags["label-ok"] = true
				} else {
					tags["label-rejected"] = true
					if strings.ContainsAny(o.Label, "\r\n") {
						tags["label-multiline"] = true
					}
					if !before.Active {
						eventsOutside = true
					}
				}
			}
			outs = append(outs, stepOut{Op: o.Op, OK: ob.OK, Err: ob.Err, Files: files})
		case "TLABEL":
			act := s.Reported().Active
			ok := s.TLabel(o)
			terms = append(terms, fmt.Sprintf("Tq %s %s %s", lib.Z(o.Off), drv.StrTerm(o.Label), lib.B(ok)))
			outs = append(outs, stepOut{Op: "TLABEL", OK: ok})
			if ok {
				spanEvents = true
				if o.Off < 0 {
					tags["label-stamped-in-the-past"] = true
				} else {
					tags["label-stamped-in-the-future"] = true
				}
			} else if !act {
				eventsOutside = true
			}
		case "PUB":
			s.Pub(o)
			terms = append(terms, fmt.Sprintf("Pq %d %d", o.Ch, o.N))
			outs = append(outs, stepOut{Op: "PUB", OK: true})
		case "BLK":
			act := s.Reported().Active
			es := s.Blk(o)
			terms = append(terms, fmt.Sprintf("Bq %s %s %s %s", drv.CompactZList(o.Ext), lib.Z(int64(o.Drops)), lib.Z(o.First), lib.B(es != "")))
			outs = append(outs, stepOut{Op: "BLK", OK: es == "", Err: es})
			if o.TickDrop && act && o.Drops > 0 {
				tags["drop-at-flush-tick"] = true
			}
			if o.Empty && act && (len(o.Ext) > 0 || o.Drops > 0) {
				tags["empty-block-with-events"] = true
			}
			if len(o.Ext) > 512 && act {
				tags["ext-burst-over-4096-bytes"] = true
			}
			if len(o.Ext) > 0 || o.Drops > 0 {
				if act {
					spanEvents = true
					tags["block-events-active"] = true
					if s.Reported().Paused {
						tags["block-events-paused"] = true
					}
				} else {
					eventsOutside = true
					tags["block-events-idle"] = true
				}
			}
		}
	}
	res.Term = fmt.Sprintf("mk %s %s", c.ConfigTerm(), lib.List(terms))
	res.Impl = outs
	res.NonTrivial = spansWithEvents >= 2 && eventsOutside
	for t := range tags {
		res.Tags = append(res.Tags, t)
	}
	sort.Strings(res.Tags)
	return res, s.DateChanged()
}

func runCase(c drv.Case) lib.Result {
	c.Sanitize()
	for i := 0; ; i++ {
		done := make(chan struct{})
		var res lib.Result
		var redo bool
		go func() { res, redo = runOnce(c); close(done) }()
		select {
		case <-done:
		case <-time.After(drv.CaseTimeout):
			// a request that is never answered (or a deadlock) must not hang the check: die, the
			// parent process then isolates this case and reports it as a crash
			fmt.Fprintf(os.Stderr, "case %d: no answer within %v (request never answered / deadlock)\n", c.ID, drv.CaseTimeout)
			os.Exit(3)
		}
		if !redo || i >= 2 {
			return res
		}
	}
}

func main() {
	h := lib.Harness{
		Gen: gen,
		RunCase: func(raw json.RawMessage) (lib.Result, error) {
			var c drv.Case
			if err := json.Unmarshal(raw, &c); err != nil {
				return lib.Result{}, err
			}
			return runCase(c), nil
		},
		Crash: func(raw json.RawMessage, stderr string) (lib.Result, error) {
			var c drv.Case
			json.Unmarshal(raw, &c)
			return lib.Result{ID: c.ID, Term: "crashed", Impl: map[string]string{"crash": stderr}, Tags: []string{"process-crash"}, Hash: lib.Hash(c)}, nil
		},
		Header:   "From Dastard Require Import Common.ZX Common.CaseLib C06.Model C20.Model C20.Spec C20.Run.",
		Verdict:  "verdict",
		PerShard: 40,
		Isolate:  true,
		Chunk:    20,
		Workers:  8,
	}
	h.Main()
}
