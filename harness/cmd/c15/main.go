// C15 harness: drives the public API of package packets (ReadPacket, every accessor, the constructors and
// Bytes) under recover and renders what it saw as Coq terms.  Unexported header fields that have no getter
// (version, sourceID, shape.Sizes) are read through reflection (read-only).
package main

import (
	"bytes"
	"encoding/json"
	"fmt"
	"io"
	"reflect"
	"sort"
	"time"

	"github.com/usnistgov/dastard/packets"
	"verifharness/lib"
)

// ---------------------------------------------------------------- case format

type BOp struct {
	O    string  `json:"o"` // ts rts clr nd | mts (ts.T = t) | enc (Bytes) | fil (MakePretendPacket(seq, n).Bytes)
	Seq  int64   `json:"seq,omitempty"`
	N    int     `json:"n,omitempty"`
	T    uint64  `json:"t,omitempty"`
	Rate float64 `json:"rate,omitempty"`
	W    int     `json:"w,omitempty"` // nd: 2 4 8 = []int16/32/64; 0 = int; 1 = []uint16
	Vals []int64 `json:"vals,omitempty"`
	Dims []int   `json:"dims"`
}

type Item struct {
	K     string   `json:"k"`             // "d" decode, "b" build
	Src   string   `json:"src,omitempty"` // generator stream
	B     []int    `json:"b,omitempty"`   // decode: the datagram
	Reads []int64  `json:"reads,omitempty"`
	Pret  [][2]int `json:"pret,omitempty"`
	V     int      `json:"v,omitempty"`
	Sid   uint32   `json:"sid,omitempty"`
	Seq   uint32   `json:"seq,omitempty"`
	Off   int64    `json:"off,omitempty"`
	Bops  []BOp    `json:"bops,omitempty"`
	// how the reader hands the bytes to ReadPacket: in pieces ending at these offsets, and before every piece
	// but the first another datagram (Inter) is decoded completely (a second source decoding "at the same time",
	// as a deterministic schedule).  Decoding must be a function of the byte string alone.
	Cuts  []int `json:"cuts,omitempty"`
	Inter []int `json:"inter,omitempty"`
}

// the delivery plan of the item being run
var curCuts []int
var curInter []byte

// planReader delivers b in pieces; between pieces it decodes curInter
type planReader struct {
	b     []byte
	pos   int
	calls int
	cuts  []int
	inter []byte
}

func (r *planReader) Read(p []byte) (int, error) {
	if r.calls > 0 && len(r.inter) > 0 {
		func() {
			defer func() { recover() }()
			packets.ReadPacket(bytes.NewReader(r.inter))
		}()
	}
	r.calls++
	if len(p) == 0 {
		return 0, nil
	}
	if r.pos >= len(r.b) {
		return 0, io.EOF
	}
	end := len(r.b)
	for _, c := range r.cuts {
		if c > r.pos && c < end {
			end = c
		}
	}
	n := copy(p, r.b[r.pos:end])
	r.pos += n
	return n, nil
}

type Case struct {
	ID  int64  `json:"id"`
	Ops []Item `json:"ops"`
}

// ---------------------------------------------------------------- observation of a packet

type pobs struct {
	panicked bool
	seq      uint32
	frames   *int
	length   int
	data     string
}

func safeInt(f func() int) (v *int) {
	defer func() {
		if e := recover(); e != nil {
			v = nil
		}
	}()
	x := f()
	return &x
}

func resZ(v *int) string {
	if v == nil {
		return "P"
	}
	return "(Ok " + lib.Z(int64(*v)) + ")"
}

// dataTerm renders Packet.Data; count = number of elements (for the budget of pretend probes)
func dataTerm(d interface{}) (term string, count int, kind string) {
	switch x := d.(type) {
	case nil:
		return "DNil", 0, "nil"
	case []int16:
		ys := make([]int64, len(x))
		for i, v := range x {
			ys[i] = int64(v)
		}
		return "(D16 " + lib.ZList64(ys) + ")", len(x), "int16"
	case []int32:
		ys := make([]int64, len(x))
		for i, v := range x {
			ys[i] = int64(v)
		}
		return "(D32 " + lib.ZList64(ys) + ")", len(x), "int32"
	case []int64:
		return "(D64 " + lib.ZList64(x) + ")", len(x), "int64"
	case []byte:
		return "(DBytes " + lib.ZListBytes(x) + ")", len(x), "bytes"
	default:
		return "DOther", 0, "other"
	}
}

func field(p *packets.Packet, name string) reflect.Value {
	return reflect.ValueOf(p).Elem().FieldByName(name)
}

// observe renders the accessor observations of p as a Coq `aobs`; ok=false if an accessor that has no
// panic representation (Timestamp, IsExternalTrigger, Length, SequenceNumber, reflection) panicked.
func observe(p *packets.Packet, reads []int64, pret [][2]int, tags map[string]bool) (term string, ok bool) {
	return observeOpt(p, reads, pret, tags, false)
}

// observeOpt: lean = only the given probes (none derived from Frames()/ChannelInfo())
func observeOpt(p *packets.Packet, reads []int64, pret [][2]int, tags map[string]bool, lean bool) (term string, ok bool) {
	defer func() {
		if e := recover(); e != nil {
			term, ok = "", false
		}
	}()
	note := func(v *int) *int {
		if v == nil {
			tags["accessor-panic"] = true
		}
		return v
	}
	version := field(p, "version").Uint()
	src := field(p, "sourceID").Uint()
	seq := p.SequenceNumber()
	length := p.Length()
	frames := note(safeInt(p.Frames))
	var nchan, off int
	chanOK := true
	func() {
		defer func() {
			if e := recover(); e != nil {
				chanOK = false
			}
		}()
		nchan, off = p.ChannelInfo()
	}()
	ch := "P"
	if !chanOK {
		tags["accessor-panic"] = true
	}
	if chanOK {
		ch = fmt.Sprintf("(Ok (%s, %s))", lib.Z(int64(nchan)), lib.Z(int64(off)))
	}
	ts := "None"
	if t := p.Timestamp(); t != nil {
		ts = "(Some " + lib.ZU(t.T) + ")"
		tags["has-timestamp"] = true
	}
	ext := p.IsExternalTrigger()
	if ext {
		tags["external-trigger"] = true
	}
	sh := "None"
	if sv := field(p, "shape"); !sv.IsNil() {
		sizes := sv.Elem().FieldByName("Sizes")
		ys := make([]int64, sizes.Len())
		for i := range ys {
			ys[i] = sizes.Index(i).Int()
		}
		sh = "(Some " + lib.ZList64(ys) + ")"
		if len(ys) > 1 {
			tags["multi-dim"] = true
		}
	}
	dterm, dcount, dkind := dataTerm(p.Data)
	tags["data-"+dkind] = true

	// ReadValue probes: the given ones plus the edges of [0, Frames())
	rs := append([]int64{}, reads...)
	if !lean {
		rs = append(rs, -1, 0)
	}
	if frames != nil && !lean {
		// every index in range when there are few, the edges always
		if *frames <= 24 {
			for i := 1; i < *frames-1; i++ {
				rs = append(rs, int64(i))
			}
		}
		rs = append(rs, int64(*frames)-1, int64(*frames))
		if *frames > 0 {
			tags["frames>0"] = true
		}
	}
	var rterms []string
	for _, i := range rs {
		i := i
		v := note(safeInt(func() int { return p.ReadValue(int(i)) }))
		rterms = append(rterms, fmt.Sprintf("(%s, %s)", lib.Z(i), resZ(v)))
	}
	// MakePretendPacket probes: the given ones plus (seq+1, nchan)
	ps := append([][2]int{}, pret...)
	if chanOK && !lean {
		ps = append(ps, [2]int{int(seq + 1), nchan})
	}
	if dcount > 300 && len(ps) > 1 {
		ps = ps[len(ps)-1:]
	}
	var pterms []string
	for _, sn := range ps {
		var q *packets.Packet
		func() {
			defer func() {
				if e := recover(); e != nil {
					q = nil
				}
			}()
			q = p.MakePretendPacket(uint32(sn[0]), sn[1])
		}()
		key := fmt.Sprintf("(%s, %s)", lib.Z(int64(uint32(sn[0]))), lib.Z(int64(sn[1])))
		if q == nil {
			if sn[1] != 0 {
				tags["accessor-panic"] = true
			}
			pterms = append(pterms, "("+key+", P)")
			continue
		}
		qd, _, _ := dataTerm(q.Data)
		pterms = append(pterms, fmt.Sprintf("(%s, Ok (Q %s %s %s %s))", key, lib.Z(int64(q.SequenceNumber())),
			resZ(safeInt(q.Frames)), lib.Z(int64(q.Length())), qd))
	}
	term = fmt.Sprintf("(A %d %d %d %s %s %s %s %s %s %s %s %s)", version, src, seq, lib.Z(int64(length)),
		resZ(frames), ch, ts, lib.B(ext), sh, dterm, lib.List(rterms), lib.List(pterms))
	return term, true
}

// decode runs ReadPacket on b and renders the `dobs`
func decode(b []byte, reads []int64, pret [][2]int, tags map[string]bool) (term string, summary string) {
	return decodeOpt(b, reads, pret, tags, false)
}

func decodeOpt(b []byte, reads []int64, pret [][2]int, tags map[string]bool, lean bool) (term string, summary string) {
	var p *packets.Packet
	var err error
	panicked := false
	consumed := 0
	func() {
		defer func() {
			if e := recover(); e != nil {
				panicked = true
			}
		}()
		if len(curCuts) > 0 || len(curInter) > 0 {
			tags["reader-in-pieces-interleaved"] = true
			rdr := &planReader{b: b, cuts: curCuts, inter: curInter}
			defer func() { consumed = rdr.pos }()
			p, err = packets.ReadPacket(rdr)
		} else {
			rdr := bytes.NewReader(b)
			defer func() { consumed = len(b) - rdr.Len() }()
			p, err = packets.ReadPacket(rdr)
		}
	}()
	if panicked {
		tags["decode-panic"] = true
		return "ODPanic", "panic"
	}
	if err != nil {
		tags["decode-error"] = true
		return fmt.Sprintf("(ODErr %d)", consumed), fmt.Sprintf("err consumed=%d", consumed)
	}
	if p == nil {
		return "ODPanic", "nil packet without error"
	}
	tags["decode-ok"] = true
	a, ok := observeOpt(p, reads, pret, tags, lean)
	if !ok {
		tags["accessor-panic"] = true
		return "ODPanic", "accessor panic"
	}
	return fmt.Sprintf("(ODOk %d %s)", consumed, a), fmt.Sprintf("ok consumed=%d", consumed)
}

func toBytes(xs []int) []byte {
	b := make([]byte, len(xs))
	for i, v := range xs {
		b[i] = byte(v)
	}
	return b
}

func toInts(b []byte) []int {
	xs := make([]int, len(b))
	for i, v := range b {
		xs[i] = int(v)
	}
	return xs
}

// ---------------------------------------------------------------- running one item

type itemOut struct {
	Kind    string   `json:"kind"`
	Summary string   `json:"summary"`
	Rets    []string `json:"rets,omitempty"`
	NBytes  int      `json:"nbytes,omitempty"`
}

const maxRendered = 16384

func passesMagic(b []byte) bool {
	return len(b) >= 16 && b[1] >= 16 && b[4] == 0x81 && b[5] == 0x0b && b[6] == 0x00 && b[7] == 0xff
}

func runDecode(it Item, tags map[string]bool) (string, itemOut, bool) {
	b := toBytes(it.B)
	if it.Src != "" {
		tags["src-"+it.Src] = true
	}
	term, summary := decode(b, it.Reads, it.Pret, tags)
	return fmt.Sprintf("IDecode %s %s", lib.ZListBytes(b), term), itemOut{Kind: "decode", Summary: summary, NBytes: len(b)}, passesMagic(b)
}

func dataArg(op BOp) (arg interface{}, term string) {
	switch op.W {
	case 2:
		d := make([]int16, len(op.Vals))
		ys := make([]int64, len(op.Vals))
		for i, v := range op.Vals {
			d[i] = int16(v)
			ys[i] = int64(d[i])
		}
		return d, "(D16 " + lib.ZList64(ys) + ")"
	case 4:
		d := make([]int32, len(op.Vals))
		ys := make([]int64, len(op.Vals))
		for i, v := range op.Vals {
			d[i] = int32(v)
			ys[i] = int64(d[i])
		}
		return d, "(D32 " + lib.ZList64(ys) + ")"
	case 8:
		d := append([]int64{}, op.Vals...)
		return d, "(D64 " + lib.ZList64(d) + ")"
	case 1:
		return make([]uint16, len(op.Vals)), "DOther"
	default:
		return 64, "DOther"
	}
}

// encodeObs calls q.Bytes() (under recover and a watchdog: the call takes microseconds, 20 s means it never
// returns) and decodes the result; renders `HEnc num denom (res bobs)`.  lean = no extra probes.
func encodeObs(q *packets.Packet, reads []int64, pret [][2]int, lean bool, tags map[string]bool) (term string, summary string, decoded bool) {
	acc, ok := observeOpt(q, reads, pret, map[string]bool{}, lean)
	if !ok {
		return "HEnc 0 0 P", "accessor of the encoded packet panicked", false
	}
	type bres struct {
		b  []byte
		ok bool
	}
	ch := make(chan bres, 1)
	go func() {
		defer func() {
			if e := recover(); e != nil {
				ch <- bres{nil, false}
			}
		}()
		ch <- bres{q.Bytes(), true}
	}()
	var br bres
	select {
	case br = <-ch:
	case <-time.After(20 * time.Second):
		tags["bytes-hang"] = true
		br = bres{nil, false}
	}
	if br.ok && len(br.b) > maxRendered {
		// no datagram is longer than 255 + 65535 bytes and Coq cannot parse list literals much longer than
		// this: a longer output is cut (Run.v cuts the model's output at the same length)
		tags["bytes-cut"] = true
		br.b = br.b[:maxRendered]
	}
	if !br.ok {
		tags["bytes-panic-or-hang"] = true
		return fmt.Sprintf("HEnc 0 0 (Ok (B %s P ODPanic))", acc), "Bytes() panicked or never returned", false
	}
	num, denom := 0, 0
	if q.Timestamp() != nil && len(br.b) >= 40 {
		num = int(br.b[28])<<8 | int(br.b[29])
		denom = int(br.b[30])<<8 | int(br.b[31])
	}
	dtags := map[string]bool{}
	var dec string
	if lean {
		dec, summary = decodeOpt(br.b, nil, nil, dtags, true)
	} else {
		dec, summary = decodeOpt(br.b, reads, pret, dtags, false)
	}
	return fmt.Sprintf("HEnc %d %d (Ok (B %s (Ok %s) %s))", num, denom, acc, lib.ZListBytes(br.b), dec),
		fmt.Sprintf("%d bytes, decode %s", len(br.b), summary), dtags["decode-ok"]
}

// runBuild runs a history on one packet object: constructor calls, changes of the time-stamp object the
// caller handed over, encodings at any point, filler packets made from it and encoded; a final encoding
// (with the item's probes) is always appended.
func runBuild(it Item, tags map[string]bool) (string, itemOut, bool) {
	tags["src-build"] = true
	out := itemOut{Kind: "build"}
	p := packets.NewPacket(uint8(it.V), it.Sid, it.Seq, int(it.Off))
	var lastTS *packets.PacketTimestamp
	var hterms []string
	panicked, errored, hasData, hasTS := false, false, false, false
	encodings := 0
	for _, op := range it.Bops {
		switch op.O {
		case "enc":
			t, sum, _ := encodeObs(p, nil, nil, true, tags)
			hterms = append(hterms, "(HEncode, "+t+")")
			out.Rets = append(out.Rets, "enc: "+sum)
			encodings++
			if encodings > 1 {
				tags["encode-again"] = true
			}
			continue
		case "fil":
			var q *packets.Packet
			func() {
				defer func() {
					if e := recover(); e != nil {
						q = nil
					}
				}()
				q = p.MakePretendPacket(uint32(op.Seq), op.N)
			}()
			key := fmt.Sprintf("HFiller %s %s", lib.Z(int64(uint32(op.Seq))), lib.Z(int64(op.N)))
			if q == nil {
				hterms = append(hterms, "("+key+", HEnc 0 0 P)")
				out.Rets = append(out.Rets, "filler: panic")
				continue
			}
			t, sum, _ := encodeObs(q, nil, nil, true, tags)
			hterms = append(hterms, "("+key+", "+t+")")
			out.Rets = append(out.Rets, "filler: "+sum)
			if encodings > 0 {
				tags["filler-after-encode"] = true
			}
			continue
		}
		var err error
		var opterm string
		func() {
			defer func() {
				if e := recover(); e != nil {
					panicked = true
				}
			}()
			switch op.O {
			case "ts":
				opterm = fmt.Sprintf("BSetTs %s 0", lib.ZU(op.T))
				lastTS = &packets.PacketTimestamp{T: op.T, Rate: op.Rate}
				err = p.SetTimestamp(lastTS)
				hasTS = true
			case "mts":
				opterm = fmt.Sprintf("BMutTs %s", lib.ZU(op.T))
				if lastTS != nil {
					lastTS.T = op.T
					if encodings > 0 && hasTS {
						tags["timestamp-advanced-after-encode"] = true
					}
				}
			case "rts":
				opterm = "BResetTs"
				err = p.ResetTimestamp()
				hasTS = false
			case "clr":
				opterm = "BClear"
				err = p.ClearData()
				hasData = false
			default:
				arg, dterm := dataArg(op)
				dims := make([]int16, len(op.Dims))
				ys := make([]int64, len(op.Dims))
				for i, d := range op.Dims {
					dims[i] = int16(d)
					ys[i] = int64(dims[i])
				}
				opterm = fmt.Sprintf("BNewData %s %s", dterm, lib.ZList64(ys))
				err = p.NewData(arg, dims)
				if err == nil {
					hasData = true
					if len(dims) > 1 {
						tags["build-multi-dim"] = true
					}
					if encodings > 0 {
						tags["newdata-after-encode"] = true
					}
				}
			}
		}()
		ret := "BRNil"
		if panicked {
			ret = "BRPanic"
			tags["constructor-panic"] = true
		} else if err != nil {
			ret = "BRErr"
			errored = true
			tags["constructor-error"] = true
		}
		out.Rets = append(out.Rets, ret)
		hterms = append(hterms, fmt.Sprintf("(HOp (%s), HRet %s)", opterm, ret))
		if panicked {
			break
		}
	}
	head := fmt.Sprintf("IBuild %d %d %d %s ", uint8(it.V), it.Sid, it.Seq, lib.Z(it.Off))
	if panicked {
		out.Summary = "constructor panicked"
		return head + lib.List(hterms), out, false
	}
	t, sum, decoded := encodeObs(p, it.Reads, it.Pret, false, tags)
	hterms = append(hterms, "(HEncode, "+t+")")
	out.Summary = "final encoding: " + sum
	if !errored {
		tags["build-ok"] = true
		if hasData {
			tags["build-with-data"] = true
		}
		if hasTS {
			tags["build-with-timestamp"] = true
		}
		if decoded {
			tags["roundtrip-decoded"] = true
		}
	}
	return head + lib.List(hterms), out, !errored && hasData
}

func runCase(c Case) lib.Result {
	res := lib.Result{ID: c.ID, Hash: lib.Hash(c.Ops)}
	tags := map[string]bool{}
	var terms []string
	var outs []itemOut
	for _, it := range c.Ops {
		curCuts, curInter = it.Cuts, toBytes(it.Inter)
		var term string
		var out itemOut
		var nt bool
		if it.K == "b" {
			term, out, nt = runBuild(it, tags)
		} else {
			term, out, nt = runDecode(it, tags)
		}
		terms = append(terms, term)
		outs = append(outs, out)
		if nt {
			res.NonTrivial = true
		}
	}
	res.Term = "mk " + lib.List(terms)
	res.Impl = outs
	for t := range tags {
		res.Tags = append(res.Tags, t)
	}
	sort.Strings(res.Tags)
	return res
}

func main() {
	h := lib.Harness{
		Gen: gen,
		RunCase: func(raw json.RawMessage) (lib.Result, error) {
			var c Case
			if err := json.Unmarshal(raw, &c); err != nil {
				return lib.Result{}, err
			}
			return runCase(c), nil
		},
		Header:   "From Dastard Require Import Common.ZX Common.CaseLib C15.Model C15.Spec C15.Run.",
		Verdict:  "verdict",
		PerShard: 40,
	}
	h.Main()
}
