package main

import (
	"os"
	"path/filepath"

	"github.com/usnistgov/dastard/packets"
	"verifharness/lib"
)

// ---------------------------------------------------------------- an independent encoder of datagrams

func be16(v int) []byte { return []byte{byte(v >> 8), byte(v)} }
func be32(v uint32) []byte {
	return []byte{byte(v >> 24), byte(v >> 16), byte(v >> 8), byte(v)}
}
func be64(v uint64) []byte { return append(be32(uint32(v>>32)), be32(uint32(v))...) }

func padTo(b []byte, n int, fill byte) []byte {
	for len(b) < n {
		b = append(b, fill)
	}
	return b[:n]
}

func header(version, hl, pl int, magic uint32, src, seq uint32) []byte {
	b := []byte{byte(version), byte(hl)}
	b = append(b, be16(pl)...)
	b = append(b, be32(magic)...)
	b = append(b, be32(src)...)
	return append(b, be32(seq)...)
}

const magicOK = 0x810b00ff

func tlvChanOffset(off uint32, pad int) []byte {
	return append(append([]byte{0x23, 1}, be16(pad)...), be32(off)...)
}
func tlvFormat(s []byte, units int) []byte {
	return padTo(append([]byte{0x21, byte(units)}, s...), 8*units, 0)
}
func tlvShape(dims []int, units int) []byte {
	b := []byte{0x22, byte(units)}
	for _, d := range dims {
		b = append(b, be16(d&0xffff)...)
	}
	return padTo(b, 8*units, 0)
}
func tlvTS(x int, y uint32) []byte { return append(append([]byte{0x11, 1}, be16(x)...), be32(y)...) }
func tlvTSUnit(nbits, exp, num, denom int, t uint64, units int, r *lib.Rng) []byte {
	b := []byte{0x13, byte(units), byte(nbits), byte(exp)}
	b = append(b, be16(num)...)
	b = append(b, be16(denom)...)
	b = append(b, be64(t)...)
	if units < 2 {
		return b[:8]
	}
	for len(b) < 8*units {
		b = append(b, byte(r.Intn(256)))
	}
	return b
}
func tlvCounter(id, cnt int, units int) []byte {
	return padTo(append(append([]byte{0x12, byte(units)}, be16(id&0xffff)...), be32(uint32(cnt))...), 8*units, 0)
}
func tlvTag(x int, tag uint32) []byte {
	return append(append([]byte{0x09, 1}, be16(x)...), be32(tag)...)
}
func tlvLabel(s string, units int) []byte {
	return padTo(append([]byte{0x29, byte(units)}, []byte(s)...), 8*units, 0)
}
func tlvUnknown(t byte, units int, r *lib.Rng) []byte {
	b := []byte{t, byte(units)}
	n := 8 * units
	if n < 8 {
		n = 8
	}
	for len(b) < n {
		b = append(b, byte(r.Intn(256)))
	}
	return b
}

func randBytes(r *lib.Rng, n int) []byte {
	b := make([]byte, n)
	for i := range b {
		switch r.Intn(8) {
		case 0:
			b[i] = byte(r.Pick([]int{0, 1, 0x7f, 0x80, 0xff, 0xfe}))
		default:
			b[i] = byte(r.Intn(256))
		}
	}
	return b
}

// ---------------------------------------------------------------- stream 1: structured TLV sequences

type fmtChoice struct {
	s       string
	wordlen int // sum of the letters' sizes; 0 = no letters
}

var goodFormats = []fmtChoice{{"<h", 2}, {">h", 2}, {"h", 2}, {"<i", 4}, {">i", 4}, {"!l", 4}, {"<l", 4}, {"l", 4}, {"<q", 8}, {">q", 8}, {"!q", 8}, {" <h ", 2}}
var oddFormats = []fmtChoice{{"b", 1}, {"B", 1}, {"H", 2}, {">I", 4}, {"Q", 8}, {"x", 1}, {"L", 4}, {"<L", 4}, {">H", 2}, {"<B", 1},
	{"<hh", 4}, {">IIQ", 16}, {"xh", 3}, {"<hi", 6}, {"bbbb", 4}, {">ii", 8}, {"", 0}, {"<", 0}, {"  >", 0}}

// several type letters and NO byte-order character: the decoder leaves the byte order nil
var noOrderFormats = []fmtChoice{{"IIQ", 16}, {"hH", 4}, {"QQ", 16}, {"hh", 4}, {"iq", 12}, {"Hb", 3}, {"qh", 10}, {"II", 8},
	{"HH", 4}, {"ih", 6}, {"Ix", 5}, {"LL", 8}, {"bh", 3}, {"Bq", 9}, {"h h", 4}}
var badFormats = []string{"<z", "h\x80", "\xc3\xa9", "<h?", "hhhhhZ", "\xff"}

// structured makes one datagram from parts and returns it with its field boundaries
func structured(r *lib.Rng, big bool) (dg []byte, bounds []int) {
	var tlvs [][]byte
	// payload description
	var fc fmtChoice
	fmtUnits := 1
	haveFormat := !r.Chance(1, 7)
	var fmtBytes []byte
	noOrder := false
	switch {
	case r.Chance(1, 8):
		fc = noOrderFormats[r.Intn(len(noOrderFormats))]
		fmtBytes = []byte(fc.s)
		noOrder = true
	case r.Chance(6, 10):
		fc = goodFormats[r.Intn(len(goodFormats))]
		fmtBytes = []byte(fc.s)
	case r.Chance(3, 4):
		fc = oddFormats[r.Intn(len(oddFormats))]
		fmtBytes = []byte(fc.s)
	default:
		fmtBytes = []byte(badFormats[r.Intn(len(badFormats))])
		fc = fmtChoice{"", 2}
	}
	if !noOrder && r.Chance(1, 8) {
		fmtUnits = 2
		if r.Chance(1, 2) { // long format strings: many letters
			n := r.Range(7, 14)
			fmtBytes = fmtBytes[:0]
			fc.wordlen = 0
			for i := 0; i < n; i++ {
				c := "hHiIqQbBxlL <"[r.Intn(13)]
				fmtBytes = append(fmtBytes, c)
				switch c {
				case 'h', 'H':
					fc.wordlen += 2
				case 'i', 'I', 'l', 'L':
					fc.wordlen += 4
				case 'q', 'Q':
					fc.wordlen += 8
				case 'b', 'B', 'x':
					fc.wordlen++
				}
			}
		}
	}
	// shape
	var dims []int
	shapeUnits := 0
	haveShape := !r.Chance(1, 7)
	switch r.Intn(12) {
	case 0:
		dims = []int{r.Range(1, 4), r.Range(1, 4)}
	case 1:
		dims = []int{0, r.Range(1, 8), 0}
	case 2:
		dims = []int{r.Range(1, 3), -r.Range(1, 5), r.Range(1, 3)}
	case 3:
		dims = [][]int{{16384, 16384, 16384, 16384, 16384}, {256, 256}, {255, 257}, {32767, 2}, {32767, 3},
			{0, 0, 0}, {-1}, {16384, 16384, 16384, 16384, 128}, {4096, 16}, {4096, 17}, {65535 - 65536, 1}}[r.Intn(11)]
	case 4:
		n := r.Range(4, 9)
		for i := 0; i < n; i++ {
			dims = append(dims, r.Pick([]int{1, 1, 1, 2, 0, 3}))
		}
	default:
		dims = []int{r.Pick([]int{1, 1, 2, 3, 4, 8, 8, 16, 32, 64})}
	}
	shapeUnits = 1 + len(dims)/4
	if r.Chance(1, 12) {
		shapeUnits += r.Range(-1, 1)
		if shapeUnits < 0 {
			shapeUnits = 0
		}
	}
	nchan := 1
	for _, d := range dims {
		if d > 0 && nchan < 1<<20 {
			nchan *= d
		}
	}
	if haveFormat {
		tlvs = append(tlvs, tlvFormat(fmtBytes, fmtUnits))
		if r.Chance(1, 15) {
			tlvs = append(tlvs, tlvFormat([]byte(goodFormats[r.Intn(len(goodFormats))].s), 1))
		}
	}
	if haveShape {
		tlvs = append(tlvs, tlvShape(dims, shapeUnits))
		if r.Chance(1, 15) {
			tlvs = append(tlvs, tlvShape([]int{r.Range(1, 4)}, 1))
		}
	}
	if r.Chance(2, 3) {
		pad := 0
		if r.Chance(1, 10) {
			pad = r.Range(1, 65535)
		}
		tlvs = append(tlvs, tlvChanOffset(uint32(r.Pick([]int{0, 0, 1, 8, 0x3000, 0x7fffffff, 0xffffffff})), pad))
	}
	if r.Chance(1, 4) {
		tlvs = append(tlvs, tlvTS(r.Pick([]int{0, 1, 0xffff, r.Intn(65536)}), uint32(r.U64())))
	}
	if r.Chance(1, 3) {
		nbits := r.Pick([]int{64, 64, 64, 48, 32, 16, 8, 0, 1, 63, 65, 128, 255})
		units := r.Pick([]int{2, 2, 2, 2, 1, 3})
		t := r.U64()
		if r.Chance(1, 4) {
			t = ^uint64(0)
		}
		tlvs = append(tlvs, tlvTSUnit(nbits, r.Pick([]int{0xf5, 0xf7, 0, 9, 0x80}), r.Pick([]int{0, 1, 4, 1000, 65535}), r.Pick([]int{0, 1, 2, 65535}), t, units, r))
	}
	if r.Chance(1, 5) {
		tlvs = append(tlvs, tlvCounter(r.Range(-2, 5), r.Range(-3, 1000), r.Pick([]int{1, 1, 1, 2})))
	}
	if r.Chance(1, 5) {
		tlvs = append(tlvs, tlvTag(r.Pick([]int{0, 0, 0, 1, 0x100}), uint32(r.U64())))
	}
	if r.Chance(1, 3) {
		switch r.Intn(4) {
		case 0:
			tlvs = append(tlvs, tlvLabel("value,active,t", 2))
		case 1:
			tlvs = append(tlvs, tlvLabel("value,active,t", 3))
		case 2:
			tlvs = append(tlvs, tlvLabel("value,active", 2))
		default:
			tlvs = append(tlvs, tlvLabel("x", 1))
		}
	}
	if r.Chance(1, 4) {
		t := byte(r.Pick([]int{0, 0xff, 0x10, 0x14, 0x20, 0x24, 0x2a, 0x08, r.Intn(256)}))
		tlvs = append(tlvs, tlvUnknown(t, r.Pick([]int{1, 1, 2, 0}), r))
	}
	// shuffle
	for i := len(tlvs) - 1; i > 0; i-- {
		j := r.Intn(i + 1)
		tlvs[i], tlvs[j] = tlvs[j], tlvs[i]
	}
	hl := 16
	for _, t := range tlvs {
		hl += len(t)
	}
	// payload
	frames := r.Range(0, 4)
	if noOrder {
		frames = r.Range(1, 4)
	}
	if big {
		frames = r.Range(100, 400)
	}
	pl := 0
	if fc.wordlen > 0 && nchan < 4096 {
		pl = frames * fc.wordlen * nchan
	} else {
		pl = r.Range(0, 24)
	}
	switch r.Intn(10) {
	case 0:
		pl += r.Range(1, 7)
	case 1:
		pl = r.Range(0, 9)
	}
	if pl > 8000 {
		pl = 8000
	}
	if pl+hl > 230 && !big {
		pl = r.Range(0, 60)
	}
	declaredHL, declaredPL := hl, pl
	switch r.Intn(14) {
	case 0:
		declaredHL = hl + r.Pick([]int{-8, 8, -1, 1, 4, 16})
	case 1:
		declaredHL = r.Pick([]int{0, 8, 15, 16, 17, 255, 248})
	case 2:
		declaredPL = pl + r.Pick([]int{-1, 1, 2, 8, 100, 60000})
		if declaredPL < 0 {
			declaredPL = 0
		}
	case 3:
		// header + payload length at and beyond 65536 (a 16-bit sum would wrap)
		declaredPL = r.Pick([]int{65535, 65536 - hl, 65535 - hl, 65537 - hl, 65536 - hl + 8, 0xfff0, 0xffe8, 0x8000, 65536 - 16})
	}
	if declaredHL < 0 {
		declaredHL = 0
	}
	if declaredHL > 255 || hl > 255 {
		declaredHL = 255
	}
	magic := uint32(magicOK)
	if r.Chance(1, 25) {
		magic ^= 1 << uint(r.Intn(32))
	}
	dg = header(r.Intn(256), declaredHL, declaredPL&0xffff, magic, uint32(r.U64()), uint32(r.U64()))
	bounds = []int{0, 1, 2, 3, 4, 8, 12, 15, 16}
	for _, t := range tlvs {
		s := len(dg)
		bounds = append(bounds, s, s+1, s+2, s+4, s+len(t)-1)
		dg = append(dg, t...)
	}
	s := len(dg)
	dg = append(dg, randBytes(r, pl)...)
	w := fc.wordlen
	if w == 0 {
		w = 1
	}
	bounds = append(bounds, s, s+1, s+w, s+w*nchan, len(dg)-w, len(dg)-1, len(dg))
	if r.Chance(1, 6) {
		dg = append(dg, randBytes(r, r.Range(1, 12))...)
	}
	return dg, bounds
}

func decodeItem(b []byte, src string, r *lib.Rng) Item {
	it := Item{K: "d", Src: src, B: toInts(b)}
	if r.Chance(1, 3) {
		it.Reads = []int64{int64(r.Range(-3, 20))}
	}
	if r.Chance(1, 3) {
		it.Pret = [][2]int{{r.Intn(1 << 20), r.Pick([]int{1, 2, 3, 0, -2, 7, 1000})}}
	}
	return it
}

func structuredFamily(r *lib.Rng, big bool) []Item {
	dg, bounds := structured(r, big)
	items := []Item{decodeItem(dg, "structured", r)}
	if big {
		return items
	}
	seen := map[int]bool{}
	var cuts []int
	for _, b := range bounds {
		if b >= 0 && b < len(dg) && !seen[b] {
			seen[b] = true
			cuts = append(cuts, b)
		}
	}
	maxItems := 9
	for len(cuts) > maxItems {
		k := r.Intn(len(cuts))
		cuts = append(cuts[:k], cuts[k+1:]...)
	}
	for _, c := range cuts {
		it := decodeItem(dg[:c], "truncated", r)
		items = append(items, it)
	}
	return items
}

// ---------------------------------------------------------------- stream 2: mutations of encoder output

func randVals(r *lib.Rng, w, n int) []int64 {
	vals := make([]int64, n)
	for i := range vals {
		var v int64
		switch r.Intn(6) {
		case 0:
			v = int64(r.Pick([]int{0, 1, -1, 2, -2}))
		case 1:
			v = int64(1)<<(uint(8*w)-1) - 1
		case 2:
			v = -(int64(1) << (uint(8*w) - 1))
		default:
			v = int64(r.U64())
		}
		switch w {
		case 2:
			v = int64(int16(v))
		case 4:
			v = int64(int32(v))
		}
		vals[i] = v
	}
	return vals
}

// encoderOutput builds a valid packet through the real constructors (falls back to the independent encoder)
func encoderOutput(r *lib.Rng) (out []byte) {
	w := r.Pick([]int{2, 2, 4, 8})
	nchan := r.Pick([]int{1, 2, 4, 8})
	frames := r.Range(0, 5)
	vals := randVals(r, w, nchan*frames)
	defer func() {
		if e := recover(); e != nil || out == nil {
			out, _ = structured(r, false)
		}
	}()
	p := packets.NewPacket(uint8(r.Intn(256)), uint32(r.U64()), uint32(r.U64()), r.Pick([]int{0, 0, 8, 0x3000}))
	if r.Chance(1, 2) {
		p.SetTimestamp(&packets.PacketTimestamp{T: r.U64(), Rate: 256e6})
	}
	var err error
	switch w {
	case 2:
		d := make([]int16, len(vals))
		for i, v := range vals {
			d[i] = int16(v)
		}
		err = p.NewData(d, []int16{int16(nchan)})
	case 4:
		d := make([]int32, len(vals))
		for i, v := range vals {
			d[i] = int32(v)
		}
		err = p.NewData(d, []int16{int16(nchan)})
	default:
		err = p.NewData(vals, []int16{int16(nchan)})
	}
	if err != nil {
		return nil
	}
	return p.Bytes()
}

func mutate(r *lib.Rng, in []byte) []byte {
	b := append([]byte{}, in...)
	n := r.Range(1, 3)
	for k := 0; k < n && len(b) > 0; k++ {
		hl := 16
		if len(b) > 1 && int(b[1]) <= len(b) && b[1] >= 16 {
			hl = int(b[1])
		}
		units := (hl - 16) / 8
		switch r.Intn(11) {
		case 0, 1: // bit flip, biased to the header
			pos := r.Intn(len(b))
			if r.Chance(2, 3) && hl <= len(b) {
				pos = r.Intn(hl)
			}
			b[pos] ^= 1 << uint(r.Intn(8))
		case 2: // set a byte
			pos := r.Intn(len(b))
			if r.Chance(2, 3) && hl <= len(b) {
				pos = r.Intn(hl)
			}
			b[pos] = byte(r.Pick([]int{0, 1, 2, 0x80, 0xff, 0x21, 0x22, 0x13}))
		case 3: // delete a TLV unit
			if units > 0 {
				u := 16 + 8*r.Intn(units)
				b = append(b[:u], b[u+8:]...)
				if r.Chance(2, 3) {
					b[1] -= 8
				}
			}
		case 4: // duplicate a TLV unit
			if units > 0 && hl+8 <= 255 {
				u := 16 + 8*r.Intn(units)
				dup := append([]byte{}, b[u:u+8]...)
				b = append(b[:u+8], append(dup, b[u+8:]...)...)
				if r.Chance(2, 3) {
					b[1] += 8
				}
			}
		case 5: // swap two TLV units
			if units > 1 {
				u, v := 16+8*r.Intn(units), 16+8*r.Intn(units)
				for i := 0; i < 8; i++ {
					b[u+i], b[v+i] = b[v+i], b[u+i]
				}
			}
		case 6: // header length
			if len(b) > 1 {
				b[1] = byte(int(b[1]) + r.Pick([]int{-8, 8, -1, 1, -16, 16}))
			}
		case 7: // payload length
			if len(b) > 3 {
				v := (int(b[2])<<8 | int(b[3])) + r.Pick([]int{-2, -1, 1, 2, 8, 256})
				b[2], b[3] = byte(v>>8), byte(v)
			}
		case 8: // truncate
			b = b[:r.Intn(len(b)+1)]
		case 9: // append junk
			b = append(b, randBytes(r, r.Range(1, 16))...)
		case 10: // TLV length byte
			if units > 0 {
				u := 16 + 8*r.Intn(units)
				b[u+1] = byte(r.Pick([]int{0, 1, 2, 3, 255}))
			}
		}
	}
	return b
}

// ---------------------------------------------------------------- stream 3: uniform random bytes

func uniformRandom(r *lib.Rng, maxLen int) []byte {
	n := r.Range(0, maxLen)
	b := make([]byte, n)
	for i := range b {
		b[i] = byte(r.Intn(256))
	}
	return b
}

// uniform random bytes behind a well-formed fixed header (so that the TLV parser sees them)
func headedRandom(r *lib.Rng) []byte {
	hl := 16 + 8*r.Range(0, 8)
	if r.Chance(1, 6) {
		hl += r.Range(1, 7)
	}
	b := header(r.Intn(256), hl, r.Pick([]int{0, 2, 8, 16, r.Intn(64)}), magicOK, uint32(r.U64()), uint32(r.U64()))
	body := uniformRandom(r, 100)
	known := []int{0x09, 0x11, 0x12, 0x13, 0x21, 0x22, 0x23, 0x29, 0, 0xff}
	for i := 0; i+1 < len(body); i += 8 {
		if r.Chance(2, 3) {
			body[i] = byte(r.Pick(known))
			body[i+1] = byte(r.Pick([]int{1, 1, 1, 2, 2, 3, 0}))
		}
	}
	return append(b, body...)
}

// ---------------------------------------------------------------- stream 4: constructions

func randomBuild(r *lib.Rng, big bool) Item {
	it := Item{K: "b", V: r.Intn(256), Sid: uint32(r.U64()), Seq: uint32(r.U64())}
	if r.Chance(1, 6) {
		it.Seq = 0xffffffff
	}
	it.Off = int64(r.Pick([]int{0, 0, 1, 8, 0x3000, 0x7fffffff, 0xffffffff}))
	if r.Chance(1, 12) {
		it.Off = int64(r.Pick([]int{-1, -4096, 1 << 32, 1<<32 + 5}))
	}
	ts := func() BOp {
		t := r.U64()
		switch r.Intn(6) {
		case 0:
			t = 0
		case 1:
			t = ^uint64(0)
		}
		rate := []float64{1e9, 256e6, 125e6, 250e8, 1.0, 100.0, 3.5e6, 1e9, 256e6, 62.5e6, 1e12, 0, 1e-300, -1}[r.Intn(14)]
		return BOp{O: "ts", T: t, Rate: rate}
	}
	nd := func() BOp {
		w := r.Pick([]int{2, 2, 2, 4, 4, 8, 8})
		if r.Chance(1, 25) {
			w = r.Pick([]int{0, 1})
		}
		var dims []int
		switch r.Intn(14) {
		case 0:
			dims = []int{r.Range(1, 4), r.Range(1, 4)}
		case 1:
			dims = []int{r.Range(1, 3), r.Range(1, 3), r.Range(1, 3), r.Range(1, 2)}
		case 2:
			dims = [][]int{{}, {0}, {-1}, {2, 0}, {256, 256}, {255, 257}, {32767, 2}, {32767, 3}, {3, -1, 2}}[r.Intn(9)]
		case 3:
			n := r.Pick([]int{3, 5, 7, 8, 12, 99, 100, 103, 104, 107, 108})
			for i := 0; i < n; i++ {
				dims = append(dims, r.Pick([]int{1, 1, 1, 1, 2}))
			}
		default:
			dims = []int{r.Pick([]int{1, 1, 2, 3, 4, 8, 8, 16, 32, 32767})}
		}
		n := r.Range(0, 24)
		if r.Chance(1, 3) && len(dims) == 1 && dims[0] > 0 && dims[0] <= 32 {
			n = dims[0] * r.Range(0, 4)
		}
		if big {
			if w < 2 {
				w = 2
			}
			// around the 8192-byte limit: header = 24 (+16) + 8 + 8*(1+ndim/4)
			n = (8192-40)/w + r.Range(-3, 2)
		}
		return BOp{O: "nd", W: w, Vals: randVals(r, w, n), Dims: dims}
	}
	switch r.Intn(12) {
	case 0:
		it.Bops = []BOp{ts(), nd()}
	case 1:
		it.Bops = []BOp{nd(), ts()}
	case 2:
		it.Bops = []BOp{nd(), nd()}
	case 3:
		it.Bops = []BOp{ts(), {O: "rts"}, nd()}
	case 4:
		it.Bops = []BOp{nd(), {O: "clr"}}
	case 5:
		it.Bops = []BOp{ts()}
	case 6:
		it.Bops = []BOp{}
	case 7:
		it.Bops = []BOp{nd(), ts(), ts(), nd(), {O: "rts"}}
	case 8:
		it.Bops = []BOp{ts(), nd(), {O: "clr"}, nd()}
	default:
		it.Bops = []BOp{nd()}
	}
	if !big && r.Chance(1, 10) {
		// many dimensions (all 1) around the header-length limit, time stamp after or before
		n := r.Range(92, 124)
		dims := make([]int, n)
		for i := range dims {
			dims[i] = 1
		}
		w := r.Pick([]int{2, 4, 8})
		many := BOp{O: "nd", W: w, Vals: randVals(r, w, r.Range(0, 6)), Dims: dims}
		switch r.Intn(4) {
		case 0:
			it.Bops = []BOp{ts(), many}
		case 1:
			it.Bops = []BOp{many, ts(), {O: "rts"}, ts()}
		default:
			it.Bops = []BOp{many, ts()}
		}
	}
	if big {
		it.Bops = []BOp{nd()}
		if r.Chance(1, 2) {
			it.Bops = []BOp{ts(), nd()}
		}
	} else if r.Chance(3, 5) {
		it.Bops = historize(r, it.Bops)
	}
	if r.Chance(1, 3) {
		it.Reads = []int64{int64(r.Range(-3, 20))}
	}
	if r.Chance(1, 3) {
		it.Pret = [][2]int{{r.Intn(1 << 20), r.Pick([]int{1, 2, 3, 0, -2, 7})}}
	}
	return it
}

// historize interleaves encodings, filler packets and changes of the caller's time-stamp object with the
// constructor calls: the same object is encoded several times during its life
func historize(r *lib.Rng, ops []BOp) []BOp {
	var out []BOp
	hasTS := false
	extra := func() {
		if r.Chance(2, 5) {
			out = append(out, BOp{O: "enc"})
		}
		if r.Chance(1, 3) {
			out = append(out, BOp{O: "fil", Seq: int64(uint32(r.U64())), N: r.Pick([]int{1, 2, 3, 4, 4, 8, 0, -2})})
			if r.Chance(1, 3) {
				out = append(out, BOp{O: "fil", Seq: int64(r.Intn(1000)), N: r.Pick([]int{1, 2, 4})})
			}
		}
		if hasTS && r.Chance(2, 5) {
			t := r.U64()
			if r.Chance(1, 5) {
				t = ^uint64(0)
			}
			out = append(out, BOp{O: "mts", T: t})
			if r.Chance(1, 2) {
				out = append(out, BOp{O: "enc"})
			}
		}
		if !hasTS && r.Chance(1, 12) {
			out = append(out, BOp{O: "mts", T: r.U64()})
		}
	}
	for _, op := range ops {
		out = append(out, op)
		switch op.O {
		case "ts":
			hasTS = true
		case "rts":
			hasTS = false
		}
		extra()
	}
	if r.Chance(1, 2) {
		out = append(out, BOp{O: "enc"})
		extra()
	}
	return out
}

// interferer makes a well-formed datagram whose header values differ from anything else in the case
func interferer(r *lib.Rng) []int {
	w := r.Pick([]int{2, 4, 8})
	fmts := map[int]string{2: ">h", 4: ">i", 8: ">q"}
	nchan := r.Pick([]int{3, 5, 7})
	var tl []byte
	tl = append(tl, tlvChanOffset(uint32(0x00de0000+r.Intn(65536)), 0)...)
	tl = append(tl, tlvTSUnit(64, 0xf7, 3, 1, r.U64()|1<<63, 2, r)...)
	tl = append(tl, tlvFormat([]byte(fmts[w]), 1)...)
	tl = append(tl, tlvShape([]int{nchan}, 1)...)
	if r.Chance(1, 2) {
		tl = append(tl, tlvLabel("value,active,t", 2)...)
	}
	pl := w * nchan * r.Range(1, 2)
	b := header(0xee, 16+len(tl), pl, magicOK, 0xdddddddd, 0xcccccccc)
	b = append(b, tl...)
	return toInts(append(b, randBytes(r, pl)...))
}

// withInterleaving makes the item's decodes run on a reader that delivers in pieces with another decode in between
func withInterleaving(r *lib.Rng, it Item, n int) Item {
	it.Inter = interferer(r)
	var cuts []int
	switch r.Intn(4) {
	case 0: // every 8 bytes of the TLV block
		for c := 24; c < 130; c += 8 {
			cuts = append(cuts, c)
		}
	case 1: // every 4 bytes
		for c := 4; c < 130; c += 4 {
			cuts = append(cuts, c)
		}
	default:
		k := r.Range(1, 4)
		for i := 0; i < k; i++ {
			cuts = append(cuts, r.Pick([]int{17, 20, 24, 28, 32, 36, 40, 44, 48, 52, 56, 64, 72, r.Range(1, 120)}))
		}
	}
	_ = n
	it.Cuts = cuts
	return it
}

// ---------------------------------------------------------------- corpus

func corpus() [][]Item {
	d := func(b []byte) []Item { return []Item{{K: "d", Src: "corpus", B: toInts(b), Reads: []int64{1}}} }
	cat := func(parts ...[]byte) []byte {
		var out []byte
		for _, p := range parts {
			out = append(out, p...)
		}
		return out
	}
	hd := func(hl, pl int) []byte { return header(1, hl, pl, magicOK, 7, 9) }
	var cs [][]Item
	// defect witnesses (decoder side)
	cs = append(cs,
		d(cat(hd(24, 0), tlvShape([]int{2}, 1))),      // shape, no format: Frames()
		d(hd(16, 0)),                                  // bare header: ChannelInfo()
		d(cat(hd(24, 0), tlvFormat([]byte("<h"), 1))), // format, no shape: ChannelInfo()
		d(cat(hd(32, 4), tlvFormat([]byte("<"), 1), tlvShape([]int{2}, 1), []byte{1, 2, 3, 4})),                                              // no type letter: wordlen 0
		d(cat(hd(32, 4), tlvFormat([]byte("<hh"), 1), tlvShape([]int{1}, 1), []byte{1, 2, 3, 4})),                                            // mixed format: ReadValue
		d(cat(hd(40, 8), tlvFormat([]byte("<h"), 1), tlvShape([]int{16384, 16384, 16384, 16384, 16384}, 2), []byte{1, 2, 3, 4, 5, 6, 7, 8})), // nchan wraps to 0
		d(cat(hd(40, 8), tlvFormat([]byte("<h"), 1), tlvShape([]int{16384, 16384, 16384, 16384, 128}, 2), []byte{1, 2, 3, 4, 5, 6, 7, 8})),   // nchan wraps to -2^63
		d(cat(hd(32, 16), tlvFormat([]byte("<h"), 1), tlvShape([]int{256, 256}, 1), make([]byte, 16))),                                       // product 65536
		d(cat(hd(32, 16), tlvFormat([]byte("<h"), 1), tlvShape([]int{255, 257}, 1), make([]byte, 16))),                                       // product 65535
	)
	// well-formed packets of every payload type, both byte orders, time stamps, labels
	pay := []byte{1, 0x80, 0xff, 0x7f, 0, 0, 0x80, 0, 9, 8, 7, 6, 5, 4, 3, 2}
	for _, f := range []string{"<h", ">h", "h", "<i", ">i", "<q", ">q", ">ii", "b", "Q"} {
		cs = append(cs, d(cat(hd(40, 16), tlvChanOffset(0x3000, 0), tlvFormat([]byte(f), 1), tlvShape([]int{2}, 1), pay)))
	}
	r := lib.NewRng(15)
	cs = append(cs,
		d(cat(hd(48, 4), tlvTS(0xffff, 0xffffffff), tlvFormat([]byte("<h"), 1), tlvShape([]int{2}, 1), tlvTSUnit(48, 0xf7, 4, 1, ^uint64(0), 2, r)[:8], pay[:4])),
		d(cat(hd(56, 4), tlvTSUnit(48, 0xf7, 4, 1, ^uint64(0), 2, r), tlvTS(1, 2), tlvFormat([]byte("<h"), 1), tlvShape([]int{2}, 1), pay[:4])),
		d(cat(hd(56, 4), tlvTS(1, 2), tlvTSUnit(64, 0xf5, 0, 0, ^uint64(0), 2, r), tlvFormat([]byte("<h"), 1), tlvShape([]int{2}, 1), pay[:4])),
		d(cat(hd(56, 16), tlvFormat([]byte(">IIQ"), 1), tlvLabel("value,active,t", 2), tlvShape([]int{0, 1, 0}, 1), pay)),
		d(cat(hd(64, 16), tlvChanOffset(0, 0), tlvFormat([]byte(">IIQ"), 1), tlvLabel("value,active,t", 2), tlvShape([]int{0, 1, 0}, 1), pay)),
		d(cat(hd(24, 3), tlvFormat([]byte("<i"), 1), pay[:3])),
		d(cat(hd(32, 6), tlvFormat([]byte("<i"), 1), tlvShape([]int{1}, 1), pay[:6])),
	)
	// declared header + payload length >= 65536, no format TLV (the payload is left unread): Length() must not wrap
	for _, pl := range []int{0xfff0, 0xffe8, 0xffff, 0xffe7} {
		cs = append(cs, d(cat(hd(24, pl), tlvChanOffset(5, 0))))
	}
	cs = append(cs, d(hd(16, 0xfff0)), d(cat(hd(32, 0xffe0), tlvChanOffset(5, 0), tlvShape([]int{2}, 1))),
		d(cat(hd(32, 0xfff8), tlvFormat([]byte("<h"), 1), tlvShape([]int{2}, 1), pay)))
	// several type letters, no byte-order character: every sample index must be readable
	for _, f := range []string{"IIQ", "hH", "QQ", "iq", "bh"} {
		cs = append(cs, d(cat(hd(40, 32), tlvChanOffset(0, 0), tlvFormat([]byte(f), 1), tlvShape([]int{1}, 1), pay, pay)))
	}
	cs = append(cs, d(cat(hd(48, 32), tlvFormat([]byte("IIQ"), 1), tlvLabel("value,active,t", 2), tlvShape([]int{0, 1, 0}, 1), pay, pay)))
	// the repository's captured packets (first packet of each file)
	repo := os.Getenv("VERIF_REPO")
	if repo == "" {
		repo = "/repo"
	}
	for _, fn := range []string{"test1.bin", "timer_packets.bin"} {
		if b, err := os.ReadFile(filepath.Join(repo, "testData", fn)); err == nil && len(b) >= 16 {
			n := int(b[1]) + (int(b[2])<<8 | int(b[3]))
			if n <= len(b) && n <= 700 {
				cs = append(cs, d(b[:n]))
			}
		}
	}
	// defect witnesses (constructor side)
	v16 := func(n int) []int64 {
		x := make([]int64, n)
		for i := range x {
			x[i] = int64(i*37%2000 - 1000)
		}
		return x
	}
	b := func(ops ...BOp) []Item {
		return []Item{{K: "b", V: 3, Sid: 77, Seq: 100, Off: 8, Bops: ops, Reads: []int64{1}}}
	}
	cs = append(cs,
		b(BOp{O: "nd", W: 2, Vals: v16(6), Dims: []int{}}),                               // no dimensions
		b(BOp{O: "nd", W: 2, Vals: v16(6), Dims: []int{0}}),                              // a zero dimension
		b(BOp{O: "nd", W: 2, Vals: v16(6), Dims: []int{2, 3}}),                           // two dimensions
		b(BOp{O: "nd", W: 4, Vals: v16(12), Dims: []int{2, 1, 3, 1, 1}}),                 // five dimensions
		b(BOp{O: "nd", W: 8, Vals: v16(8192), Dims: []int{4}}),                           // 65536 payload bytes
		b(BOp{O: "nd", W: 2, Vals: v16(6), Dims: []int{256, 256}}),                       // 65536 values per frame
		b(BOp{O: "ts", T: 5, Rate: 0}, BOp{O: "nd", W: 2, Vals: v16(6), Dims: []int{2}}), // zero rate: Bytes() must return
		b(BOp{O: "ts", T: 0x0102030405060708, Rate: 256e6}, BOp{O: "nd", W: 2, Vals: v16(8), Dims: []int{4}}),
		b(BOp{O: "nd", W: 4, Vals: v16(8), Dims: []int{4}}, BOp{O: "ts", T: ^uint64(0), Rate: 1e9}),
		b(BOp{O: "nd", W: 8, Vals: []int64{-1 << 63, 1<<63 - 1, 0, -1}, Dims: []int{1}}),
		b(BOp{O: "nd", W: 0, Vals: nil, Dims: []int{1}}),
	)
	// 96..120 dimensions with a time stamp set after / before: the one-byte header length must not wrap
	ones := func(n int) []int {
		x := make([]int, n)
		for i := range x {
			x[i] = 1
		}
		return x
	}
	for _, n := range []int{96, 99, 100, 103, 104, 107, 108, 112, 120} {
		cs = append(cs,
			b(BOp{O: "nd", W: 2, Vals: v16(4), Dims: ones(n)}, BOp{O: "ts", T: 11, Rate: 125e6}),
			b(BOp{O: "ts", T: 12, Rate: 125e6}, BOp{O: "nd", W: 2, Vals: v16(4), Dims: ones(n)}))
	}
	// histories: every encoding must decode to the object's current fields
	cs = append(cs,
		// send a packet, then make fillers from it and send them; advance the caller's time stamp; new data
		b(BOp{O: "nd", W: 4, Vals: v16(8), Dims: []int{4}}, BOp{O: "ts", T: 4294972296, Rate: 125e6},
			BOp{O: "fil", Seq: 555, N: 4}, BOp{O: "enc"}, BOp{O: "fil", Seq: 98, N: 4}, BOp{O: "fil", Seq: 0xfffffff0, N: 4},
			BOp{O: "mts", T: 4294973296}, BOp{O: "enc"}, BOp{O: "nd", W: 4, Vals: v16(4), Dims: []int{4}},
			BOp{O: "ts", T: 7, Rate: 125e6}, BOp{O: "enc"}),
		// encode twice in a row; filler of a packet without data; time stamp changed after a reset
		b(BOp{O: "enc"}, BOp{O: "enc"}, BOp{O: "fil", Seq: 3, N: 1}, BOp{O: "ts", T: 9, Rate: 1e9}, BOp{O: "enc"},
			BOp{O: "rts"}, BOp{O: "mts", T: 10}, BOp{O: "enc"}, BOp{O: "nd", W: 2, Vals: v16(6), Dims: []int{3}},
			BOp{O: "enc"}, BOp{O: "clr"}, BOp{O: "enc"}, BOp{O: "fil", Seq: 4, N: 0}),
		// a second SetTimestamp after encoding, then the new object advanced
		b(BOp{O: "ts", T: 1, Rate: 256e6}, BOp{O: "nd", W: 8, Vals: v16(4), Dims: []int{2}}, BOp{O: "enc"},
			BOp{O: "ts", T: 2, Rate: 256e6}, BOp{O: "enc"}, BOp{O: "mts", T: 3}, BOp{O: "fil", Seq: 77, N: 2}, BOp{O: "fil", Seq: 78, N: 0}),
	)
	// two sources decoding "at the same time": the reader delivers the TLV block in pieces, another datagram is decoded in between
	ri := lib.NewRng(16)
	for k := 0; k < 3; k++ {
		it := b(BOp{O: "nd", W: 4, Vals: v16(8), Dims: []int{4}}, BOp{O: "ts", T: 4294972296 + uint64(k), Rate: 125e6})[0]
		it = withInterleaving(ri, it, 0)
		it.Cuts = [][]int{{24, 32, 40, 48, 56}, {20}, {40, 44}}[k]
		cs = append(cs, []Item{it})
	}
	many := make([]int, 108)
	for i := range many {
		many[i] = 1
	}
	cs = append(cs, b(BOp{O: "nd", W: 2, Vals: v16(6), Dims: many}), b(BOp{O: "nd", W: 2, Vals: v16(6), Dims: many[:100]}),
		b(BOp{O: "nd", W: 2, Vals: v16(6), Dims: many[:99]}))
	return cs
}

// ---------------------------------------------------------------- gen

func gen(seed uint64, tier string) []interface{} {
	r := lib.NewRng(seed)
	nStructured, nMutated, nRandom, nBuild, nBig := 200, 100, 60, 110, 4
	if tier == "thorough" {
		nStructured, nMutated, nRandom, nBuild, nBig = 2500, 1500, 1000, 1500, 60
	}
	var out []interface{}
	id := int64(1)
	add := func(items []Item) {
		out = append(out, Case{ID: id, Ops: items})
		id++
	}
	for _, c := range corpus() {
		add(c)
	}
	for i := 0; i < nStructured; i++ {
		rr := r.Fork()
		fam := structuredFamily(rr, false)
		if rr.Chance(1, 5) {
			for k := range fam {
				fam[k] = withInterleaving(rr, fam[k], len(fam[k].B))
			}
		}
		add(fam)
	}
	for i := 0; i < nMutated; i++ {
		rr := r.Fork()
		base := encoderOutput(rr)
		var items []Item
		if rr.Chance(1, 4) {
			items = append(items, decodeItem(base, "encoder", rr))
		}
		for k := 0; k < 6; k++ {
			items = append(items, decodeItem(mutate(rr, base), "mutated", rr))
		}
		add(items)
	}
	for i := 0; i < nRandom; i++ {
		rr := r.Fork()
		var items []Item
		for k := 0; k < 4; k++ {
			items = append(items, decodeItem(uniformRandom(rr, 200), "random", rr))
			items = append(items, decodeItem(headedRandom(rr), "headed-random", rr))
		}
		add(items)
	}
	for i := 0; i < nBuild; i++ {
		rr := r.Fork()
		a, b := randomBuild(rr, false), randomBuild(rr, false)
		if rr.Chance(1, 2) {
			a = withInterleaving(rr, a, 0)
		}
		if rr.Chance(1, 4) {
			b = withInterleaving(rr, b, 0)
		}
		add([]Item{a, b})
	}
	for i := 0; i < nBig; i++ {
		rr := r.Fork()
		switch i % 4 {
		case 0:
			add([]Item{randomBuild(rr, true)})
		case 1:
			add(structuredFamily(rr, true))
		case 2:
			add([]Item{decodeItem(uniformRandom(rr, 8192), "random", rr)})
		default:
			b := encoderOutput(rr)
			add([]Item{decodeItem(mutate(rr, b), "mutated", rr)})
		}
	}
	return out
}
