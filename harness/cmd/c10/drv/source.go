package drv

import (
	"fmt"
	"net"
	"runtime"
	"strings"
	"time"

	"github.com/usnistgov/dastard"
	"github.com/usnistgov/dastard/packets"
)

// Src is one data source object prepared for a case, with the fault (if any) already scripted.
type Src struct {
	Kind         string // triangle simpulse erroring abaco abacoudp lancero
	DS           dastard.DataSource
	Any          *dastard.AnySource
	DevOpen      func() bool              // Abaco: a device opened by Sample is still open
	AdapterOn    func() bool              // Lancero: adapter or collector still running
	Reconf       func() error             // clears the fault and configures the source again (before a restart)
	Feed         func(stop chan struct{}) // abacoudp: send packets to the receiver until stop is closed (nil otherwise)
	Silence      func()                   // abaco: the hardware stops sending (nil otherwise)
	SetStopDelay func(d time.Duration)    // abaco (scripted): closing the device takes d (nil otherwise)
}

func no() bool { return false }

// FreeUDPPort returns a UDP port on 127.0.0.1 that is free right now.
func FreeUDPPort() (int, error) {
	a, err := net.ResolveUDPAddr("udp", "127.0.0.1:0")
	if err != nil {
		return 0, err
	}
	c, err := net.ListenUDP("udp", a)
	if err != nil {
		return 0, err
	}
	p := c.LocalAddr().(*net.UDPAddr).Port
	c.Close()
	return p, nil
}

// PortBound tells whether somebody still holds the UDP port.
func PortBound(port int) bool {
	a, _ := net.ResolveUDPAddr("udp", fmt.Sprintf("127.0.0.1:%d", port))
	c, err := net.ListenUDP("udp", a)
	if err != nil {
		return true
	}
	c.Close()
	return false
}

// NewSrc builds the source of the given kind with the given fault scripted.
// Faults: none | sample | samplelate | prepare | runearly | runlate   (which ones exist depends on the kind).
func NewSrc(kind, fault string) (*Src, error) {
	switch kind {
	case "triangle":
		ts := dastard.NewTriangleSource()
		cfg := &dastard.TriangleSourceConfig{Nchan: 2, SampleRate: 10000, Min: 100, Max: 110}
		s := &Src{Kind: kind, DS: ts, Any: &ts.AnySource, DevOpen: no, AdapterOn: no}
		s.Reconf = func() error { return ts.Configure(cfg) }
		switch fault {
		case "none":
			return s, ts.Configure(cfg)
		case "prepare": // never configured: zero channels, PrepareRun refuses
			return s, nil
		}
	case "simpulse":
		ps := dastard.NewSimPulseSource()
		cfg := &dastard.SimPulseSourceConfig{Nchan: 2, SampleRate: 10000, Pedestal: 1000, Amplitudes: []float64{5000}, Nsamp: 20}
		s := &Src{Kind: kind, DS: ps, Any: &ps.AnySource, DevOpen: no, AdapterOn: no}
		s.Reconf = func() error { return ps.Configure(cfg) }
		switch fault {
		case "none":
			return s, ps.Configure(cfg)
		case "prepare":
			return s, nil
		}
	case "erroring":
		es := dastard.NewErroringSource()
		if fault == "none" {
			return &Src{Kind: kind, DS: es, Any: &es.AnySource, DevOpen: no, AdapterOn: no, Reconf: func() error { return nil }}, nil
		}
	case "abaco":
		p := &dastard.VerifC10Producer{Nchan: 2}
		switch fault {
		case "none":
		case "sample":
			p.StartErr = true
		case "samplelate":
			p.SampleErr = true
		case "prepare":
			p.NoData = true
		default:
			return nil, fmt.Errorf("abaco: no fault %q", fault)
		}
		as, err := dastard.VerifC10NewAbaco(p)
		if err != nil {
			return nil, err
		}
		s := &Src{Kind: kind, DS: as, Any: &as.AnySource, DevOpen: p.VerifOpen, AdapterOn: no}
		s.Silence = func() { p.VerifSetSilent(true) }
		s.SetStopDelay = func(d time.Duration) { p.StopDelay = d }
		s.Reconf = func() error { // the hardware now sends data: a healthy producer replaces the faulty one
			if p.VerifOpen() {
				return fmt.Errorf("device still open (address already in use)")
			}
			q := &dastard.VerifC10Producer{Nchan: 2}
			s.DevOpen = q.VerifOpen
			as.VerifC10SetProducers(q)
			return nil
		}
		return s, nil
	case "abacoudp":
		if fault != "prepare" {
			return nil, fmt.Errorf("abacoudp: only fault prepare (no packets arriving)")
		}
		port, err := FreeUDPPort()
		if err != nil {
			return nil, err
		}
		as, err := dastard.NewAbacoSource()
		if err != nil {
			return nil, err
		}
		hp := fmt.Sprintf("127.0.0.1:%d", port)
		conf := func() error {
			return as.Configure(&dastard.AbacoSourceConfig{HostPortUDP: []string{hp}})
		}
		s := &Src{Kind: kind, DS: as, Any: &as.AnySource, AdapterOn: no, Reconf: conf}
		s.DevOpen = func() bool { return PortBound(port) }
		s.Feed = func(stop chan struct{}) { feedUDP(hp, stop) }
		return s, conf()
	case "lancero":
		fail := ""
		switch fault {
		case "none":
		case "sample":
			fail = "StartCollector#1"
		case "samplesilent": // the crate is not streaming yet: no frame bits within the sampling time
			fail = "silent"
		case "sampleread": // reading the card fails while sampling
			fail = "AvailableBuffer#2"
		case "runearly":
			fail = "StartAdapter#2"
		case "runlate":
			fail = "StartCollector#2"
		default:
			return nil, fmt.Errorf("lancero: no fault %q", fault)
		}
		card := NewCard(2, 1, fail)
		ls := dastard.VerifC10NewLancero(card, 2)
		s := &Src{Kind: kind, DS: ls, Any: &ls.AnySource, DevOpen: no, AdapterOn: card.Running}
		s.Reconf = func() error { card.SetFail(""); return nil }
		return s, nil
	}
	return nil, fmt.Errorf("no source kind %q with fault %q", kind, fault)
}

// feedUDP sends a gap-free stream of small packets to hostport until stop is closed.
func feedUDP(hostport string, stop chan struct{}) {
	conn, err := net.Dial("udp", hostport)
	if err != nil {
		return
	}
	defer conn.Close()
	sn := uint32(0)
	ts := uint64(0)
	for {
		select {
		case <-stop:
			return
		default:
		}
		for i := 0; i < 4; i++ {
			sn++
			ts += 25 * 1000
			pk := packets.NewPacket(10, 20, sn-1, 0)
			if err := pk.NewData(make([]int16, 25*2), []int16{2}); err != nil {
				return
			}
			pk.SetTimestamp(packets.MakeTimestamp(uint16(ts>>32), uint32(ts), 1e9))
			conn.Write(pk.Bytes())
		}
		time.Sleep(2 * time.Millisecond)
	}
}

// ---- goroutine census ----

// Goroutines returns, for every live goroutine that runs dastard code (other than the harness's own
// drains), its id and first line of stack.
func Goroutines() map[string]string {
	buf := make([]byte, 1<<20)
	for {
		n := runtime.Stack(buf, true)
		if n < len(buf) {
			buf = buf[:n]
			break
		}
		buf = make([]byte, 2*len(buf))
	}
	out := map[string]string{}
	for _, g := range strings.Split(string(buf), "\n\n") {
		// a worker is a goroutine CREATED BY dastard code (the core loop, producers, readers, per-block
		// assemblers, UDP receivers); goroutines created by the harness or by the verif export file are not
		i := strings.LastIndex(g, "created by ")
		if i < 0 {
			continue
		}
		creator := strings.SplitN(g[i+len("created by "):], "\n", 2)[0]
		if !strings.HasPrefix(creator, "github.com/usnistgov/dastard.") && !strings.HasPrefix(creator, "github.com/usnistgov/dastard/") {
			continue
		}
		if strings.Contains(creator, "dastard.VerifC1") {
			continue
		}
		lines := strings.SplitN(g, "\n", 2)
		id := strings.Fields(strings.TrimPrefix(lines[0], "goroutine "))
		if len(id) == 0 {
			continue
		}
		out[id[0]] = creator
	}
	return out
}

// NewWorkers waits (up to limit) for all dastard goroutines not in base to exit and returns those left.
func NewWorkers(base map[string]string, limit time.Duration) []string {
	deadline := time.Now().Add(limit)
	for {
		var left []string
		for id, fn := range Goroutines() {
			if _, ok := base[id]; !ok {
				left = append(left, fn)
			}
		}
		if len(left) == 0 || time.Now().After(deadline) {
			return left
		}
		time.Sleep(2 * time.Millisecond)
	}
}
