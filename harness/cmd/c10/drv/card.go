// Package drv: source set-up shared by the C10 and C11 harnesses (scripted Lancero card, source
// constructors with fault injection, goroutine census).
package drv

import (
	"fmt"
	"sync"
	"time"
)

// Card is a scripted lancero.Lanceroer: every AvailableBuffer call returns the unreleased bytes plus
// four new, correctly framed frames and a time stamp 50 ms after the previous one (so that the
// 200 ms sampling loop of sampleCard ends after a few calls without any real waiting).
// One method call can be scripted to fail: Fail = "<Method>#<k>" fails the k-th call of Method.
type Card struct {
	mu         sync.Mutex
	Nrows      int
	Ncols      int
	Fail       string
	calls      map[string]int
	unreleased []byte
	now        time.Time
	adapterOn  bool
	collOn     bool
	count      byte
}

func NewCard(nrows, ncols int, fail string) *Card {
	return &Card{Nrows: nrows, Ncols: ncols, Fail: fail, calls: map[string]int{}, now: time.Unix(1700000000, 0)}
}

func (c *Card) fails(method string) error {
	c.calls[method]++
	if c.Fail == fmt.Sprintf("%s#%d", method, c.calls[method]) {
		return fmt.Errorf("scripted card: %s fails", c.Fail)
	}
	return nil
}

// SetFail replaces the scripted failure ("" = healthy) and resets the call counters.
func (c *Card) SetFail(f string) {
	c.mu.Lock()
	defer c.mu.Unlock()
	c.Fail = f
	c.calls = map[string]int{}
}

// Running tells whether the adapter or the collector is still running.
func (c *Card) Running() bool {
	c.mu.Lock()
	defer c.mu.Unlock()
	return c.adapterOn || c.collOn
}

func (c *Card) ChangeRingBuffer(int, int) error {
	c.mu.Lock()
	defer c.mu.Unlock()
	return c.fails("ChangeRingBuffer")
}
func (c *Card) Close() error { return nil }
func (c *Card) StartAdapter(int, int) error {
	c.mu.Lock()
	defer c.mu.Unlock()
	if err := c.fails("StartAdapter"); err != nil {
		return err
	}
	if c.adapterOn {
		return fmt.Errorf("scripted card: adapter already started")
	}
	c.adapterOn = true
	return nil
}
func (c *Card) StopAdapter() error {
	c.mu.Lock()
	defer c.mu.Unlock()
	c.adapterOn = false
	return nil
}
func (c *Card) CollectorConfigure(int, int, uint32, int) error {
	c.mu.Lock()
	defer c.mu.Unlock()
	return c.fails("CollectorConfigure")
}
func (c *Card) StartCollector(bool) error {
	c.mu.Lock()
	defer c.mu.Unlock()
	if err := c.fails("StartCollector"); err != nil {
		return err
	}
	c.collOn = true
	return nil
}
func (c *Card) StopCollector() error {
	c.mu.Lock()
	defer c.mu.Unlock()
	c.collOn = false
	return nil
}
func (c *Card) Wait() (time.Time, time.Duration, error) {
	c.mu.Lock()
	defer c.mu.Unlock()
	if err := c.fails("Wait"); err != nil {
		return c.now, 0, err
	}
	return c.now, 0, nil
}
func (c *Card) AvailableBuffer() ([]byte, time.Time, error) {
	c.mu.Lock()
	defer c.mu.Unlock()
	if err := c.fails("AvailableBuffer"); err != nil {
		return nil, c.now, err
	}
	for f := 0; f < 4; f++ {
		for row := 0; row < c.Nrows; row++ {
			for col := 0; col < c.Ncols; col++ {
				c.count++
				fb := byte(0)
				if row == 0 && c.Fail != "silent" { // a silent crate sends words without any frame bit
					fb = 1
				}
				// word layout: errLo errHi fbLo fbHi; the frame bit is bit 0 of fbLo in row 0
				c.unreleased = append(c.unreleased, 0, 0, fb, c.count&0x7f)
			}
		}
	}
	c.now = c.now.Add(50 * time.Millisecond)
	return append([]byte(nil), c.unreleased...), c.now, nil
}
func (c *Card) ReleaseBytes(n int) error {
	c.mu.Lock()
	defer c.mu.Unlock()
	if n > len(c.unreleased) {
		n = len(c.unreleased)
	}
	if n > 0 {
		c.unreleased = c.unreleased[n:]
	}
	return nil
}
func (c *Card) InspectAdapter() uint32 { return 0 }
