// Package sched: the serialising synchronisation-point scheduler shared by the C10 and C11 harnesses.
//
// Every goroutine of the implementation that reaches a verifPoint whose name is in the park set
// blocks there ("parks").  The scheduler releases exactly one parked goroutine at a time, chosen by
// the seeded PRNG, records the name of the point it was released from, and then waits until that
// goroutine parks again or finishes its call — or until a short quiet period has passed, which means
// it is blocked (on a channel, a mutex, a WaitGroup) or merely slow.  Deciding "blocked" too early
// only lets two goroutines run side by side for a moment, which is a legal execution of the program
// and one that the model (whose steps are single atomic operations) has to accept anyway; so timing
// can change WHICH legal trace is recorded, never whether a recorded trace is legal.
package sched

import (
	"bytes"
	"runtime"
	"strconv"
	"strings"
	"sync"
	"time"

	"verifharness/lib"
)

// Event is one entry of the recorded trace.
type Event struct {
	Kind string `json:"k"` // "pt" (released from point), "ret" (call returned), "obs" (harness reading)
	Name string `json:"n"` // point name / call name / reading name
	Val  string `json:"v,omitempty"`
}

type waiter struct {
	name string
	gid  uint64
	ch   chan struct{}
}

// Sched is one scheduler instance (one per case).
type Sched struct {
	mu       sync.Mutex
	cond     *sync.Cond
	rng      *lib.Rng
	park     map[string]bool
	pass     bool // pass-through: nobody parks, nothing is recorded
	parked   []*waiter
	inflight map[uint64]string // gid -> the point it was released from ("call:<name>" for a fresh call)
	events   []Event
	Quiet    time.Duration
	counts   map[string]int             // arrivals per point name (also in pass-through mode)
	pending  int                        // registered calls that have not returned
	activity uint64                     // bumped on every arrival / return
	Steps    int                        // releases so far
	coreGid  uint64                     // the goroutine that last reached a core:* point (the core loop)
	judge    bool                       // a request is in progress: accesses to loop-owned state are judged
	passed   map[uint64]map[string]bool // which points each goroutine has reached
	Foreign  []string                   // "own:*" points reached, while judged, by a goroutine other than the core loop
}

// New creates a scheduler that parks goroutines at the named points.
func New(rng *lib.Rng, parkNames []string) *Sched {
	s := &Sched{rng: rng, park: map[string]bool{}, inflight: map[uint64]string{}, counts: map[string]int{},
		Quiet: 4 * time.Millisecond}
	s.cond = sync.NewCond(&s.mu)
	for _, n := range parkNames {
		s.park[n] = true
	}
	return s
}

func goid() uint64 {
	var buf [64]byte
	b := buf[:runtime.Stack(buf[:], false)]
	b = bytes.TrimPrefix(b, []byte("goroutine "))
	if i := bytes.IndexByte(b, ' '); i > 0 {
		b = b[:i]
	}
	n, _ := strconv.ParseUint(string(b), 10, 64)
	return n
}

// Hook is installed with dastard.VerifSetPointHook.
func (s *Sched) Hook(name string) {
	s.mu.Lock()
	s.counts[name]++
	if strings.HasPrefix(name, "own:") {
		// state owned by the core loop: while a request is being handled nobody else may touch it
		if g := goid(); s.judge && s.coreGid != 0 && g != s.coreGid {
			s.Foreign = append(s.Foreign, name)
		}
		s.mu.Unlock()
		return
	}
	if strings.HasPrefix(name, "core:") {
		s.coreGid = goid()
	}
	if s.pass || !s.park[name] {
		s.mu.Unlock()
		return
	}
	g := goid()
	if s.passed == nil {
		s.passed = map[uint64]map[string]bool{}
	}
	if s.passed[g] == nil {
		s.passed[g] = map[string]bool{}
	}
	s.passed[g][name] = true
	delete(s.inflight, g)
	w := &waiter{name: name, gid: g, ch: make(chan struct{})}
	s.parked = append(s.parked, w)
	s.activity++
	s.cond.Broadcast()
	s.mu.Unlock()
	<-w.ch
}

// Go runs f as a registered call: the scheduler knows it is pending until it returns, and its return
// is recorded as a "ret" event with the class computed by f.
func (s *Sched) Go(call string, f func() string) {
	s.mu.Lock()
	s.pending++
	s.mu.Unlock()
	started := make(chan struct{})
	go func() {
		g := goid()
		s.mu.Lock()
		s.inflight[g] = "call:" + call
		s.mu.Unlock()
		close(started)
		class := f()
		s.mu.Lock()
		delete(s.inflight, g)
		s.pending--
		if !s.pass {
			s.events = append(s.events, Event{Kind: "ret", Name: call, Val: class})
		}
		s.activity++
		s.cond.Broadcast()
		s.mu.Unlock()
	}()
	<-started
}

// Passed tells whether the calling goroutine has reached the named point.
func (s *Sched) Passed(name string) bool {
	g := goid()
	s.mu.Lock()
	defer s.mu.Unlock()
	return s.passed[g][name]
}

// SetJudge switches the judging of accesses to loop-owned state on or off.
func (s *Sched) SetJudge(b bool) {
	s.mu.Lock()
	s.judge = b
	s.mu.Unlock()
}

// ForeignAccesses returns the judged accesses made outside the core loop.
func (s *Sched) ForeignAccesses() []string {
	s.mu.Lock()
	defer s.mu.Unlock()
	return append([]string(nil), s.Foreign...)
}

// Record appends a harness observation.
func (s *Sched) Record(e Event) {
	s.mu.Lock()
	s.events = append(s.events, e)
	s.mu.Unlock()
}

// Events returns a copy of the trace so far.
func (s *Sched) Events() []Event {
	s.mu.Lock()
	defer s.mu.Unlock()
	return append([]Event(nil), s.events...)
}

// Count returns how often the named point has been reached.
func (s *Sched) Count(name string) int {
	s.mu.Lock()
	defer s.mu.Unlock()
	return s.counts[name]
}

// Pending returns the number of registered calls that have not returned.
func (s *Sched) Pending() int {
	s.mu.Lock()
	defer s.mu.Unlock()
	return s.pending
}

// ParkedAt tells whether some goroutine is parked at the named point.
func (s *Sched) ParkedAt(name string) bool {
	s.mu.Lock()
	defer s.mu.Unlock()
	for _, w := range s.parked {
		if w.name == name {
			return true
		}
	}
	return false
}

// NParked returns the number of parked goroutines.
func (s *Sched) NParked() int {
	s.mu.Lock()
	defer s.mu.Unlock()
	return len(s.parked)
}

// InFlightFrom tells whether a goroutine released from (or freshly called as) one of the given
// origins has not parked again yet.
func (s *Sched) InFlightFrom(origins ...string) bool {
	s.mu.Lock()
	defer s.mu.Unlock()
	for _, o := range s.inflight {
		for _, x := range origins {
			if o == x {
				return true
			}
		}
	}
	return false
}

// WaitActivity waits until something arrives / returns or d has passed; reports whether something happened.
func (s *Sched) WaitActivity(d time.Duration) bool {
	s.mu.Lock()
	start := s.activity
	s.mu.Unlock()
	deadline := time.Now().Add(d)
	for {
		s.mu.Lock()
		a := s.activity
		s.mu.Unlock()
		if a != start {
			return true
		}
		if time.Now().After(deadline) {
			return false
		}
		time.Sleep(200 * time.Microsecond)
	}
}

// settle waits until goroutine g has parked again or finished, or the quiet period has passed.
func (s *Sched) settle(g uint64) {
	deadline := time.Now().Add(s.Quiet)
	for {
		s.mu.Lock()
		_, fl := s.inflight[g]
		s.mu.Unlock()
		if !fl || time.Now().After(deadline) {
			return
		}
		time.Sleep(100 * time.Microsecond)
	}
}

// Step releases one parked goroutine (chosen by the PRNG among those whose point name satisfies
// allow; nil allows all), records the release, and waits for it to settle.  Returns false when
// nothing eligible is parked.
func (s *Sched) Step(allow func(name string) bool) bool {
	s.mu.Lock()
	var idx []int
	for i, w := range s.parked {
		if allow == nil || allow(w.name) {
			idx = append(idx, i)
		}
	}
	if len(idx) == 0 {
		s.mu.Unlock()
		return false
	}
	// deterministic order of candidates: by point name, then by arrival order
	for i := 1; i < len(idx); i++ {
		for j := i; j > 0 && s.parked[idx[j]].name < s.parked[idx[j-1]].name; j-- {
			idx[j], idx[j-1] = idx[j-1], idx[j]
		}
	}
	k := idx[s.rng.Intn(len(idx))]
	w := s.parked[k]
	s.parked = append(s.parked[:k], s.parked[k+1:]...)
	s.inflight[w.gid] = w.name
	s.events = append(s.events, Event{Kind: "pt", Name: w.name})
	s.Steps++
	close(w.ch)
	s.mu.Unlock()
	s.settle(w.gid)
	return true
}

// PassThrough releases everybody and stops parking and recording.
func (s *Sched) PassThrough() {
	s.mu.Lock()
	s.pass = true
	for _, w := range s.parked {
		close(w.ch)
	}
	s.parked = nil
	s.mu.Unlock()
}
