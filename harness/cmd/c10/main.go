// C10 harness: real Start / CoreLoop / Stop of real source objects, steered at the named
// synchronisation points by the serialising scheduler (package sched).  The recorded trace (released
// points, call returns, GetState readings) and the final readings are rendered as one Coq term; the
// Coq side decides whether the life-cycle model accepts the trace and whether the observable checker does.
package main

import (
	"encoding/json"
	"fmt"
	"io"
	"log"
	"os"
	"sort"
	"strings"
	"sync"
	"sync/atomic"
	"time"

	"github.com/usnistgov/dastard"
	"verifharness/cmd/c10/drv"
	"verifharness/cmd/c10/sched"
	"verifharness/lib"
)

type Case struct {
	ID         int64  `json:"id"`
	Kind       string `json:"kind"`   // triangle simpulse erroring abaco abacoudp lancero
	Fault      string `json:"fault"`  // none sample samplelate prepare runearly runlate
	Write      bool   `json:"write"`  // switch file writing on right after Start
	Start2     bool   `json:"start2"` // issue a second Start while the first is in force
	Seed       uint64 `json:"seed"`
	Ops        []int  `json:"ops"`                  // one entry per Stop caller: launched once that many points were released after Start returned (-1: once the source has ended by itself)
	Silent     bool   `json:"silent"`               // abaco: the hardware stops sending right after Start (the reader gives up after 5 s)
	HoldCore   bool   `json:"holdcore,omitempty"`   // keep the core loop parked for 2.6 s while a Stop caller waits for it
	SlowClose  int    `json:"slowclose,omitempty"`  // abaco: closing the devices takes this many ms
	BreakState bool   `json:"breakstate,omitempty"` // while writing: the experiment-state file's descriptor is closed underneath (the STOP label cannot be written)
	// a history of calls through the RPC entry points instead of a life-cycle trace:
	// "start:triangle" "start:simpulse" "start:erroring" "start:lancero" "start:lancero-ar" (configured to auto-restart)
	// "selfend" (wait until the running source has ended by itself) "req" (a queued request with valid arguments) "stop"
	Rpc []string `json:"rpc,omitempty"`
}

var points = []string{"start:starting", "start:sampled", "start:channels", "start:prepared", "start:activated",
	"start:running", "rundone:deactivate", "core:before-select", "core:after-request", "core:after-block",
	"core:before-return", "stop:locked", "stop:abort-closed", "stop:waited", "stop:before-return"}

var coqPoint = map[string]string{
	"start:starting": "PStart SP1", "start:sampled": "PStart SP2", "start:channels": "PStart SP3",
	"start:prepared": "PStart SP4", "start:activated": "PStart SP5", "start:running": "PStart SP6",
	"rundone:deactivate": "PRunDone", "core:before-select": "PCoreSel", "core:after-request": "PCoreReq",
	"core:after-block": "PCoreBlk", "core:before-return": "PCoreRet", "stop:locked": "PStopLocked",
	"stop:abort-closed": "PStopAbort", "stop:waited": "PStopWaited", "stop:before-return": "PStopRet",
}
var coqKind = map[string]string{"triangle": "KSim", "simpulse": "KSim", "erroring": "KErr", "abaco": "KAbaco",
	"abacoudp": "KAbaco", "lancero": "KLancero"}
var coqFault = map[string]string{"none": "FNone", "sample": "FSample", "samplesilent": "FSample", "sampleread": "FSample", "samplelate": "FSampleLate",
	"prepare": "FPrepare", "runearly": "FRunEarly", "runlate": "FRunLate"}
var coqState = map[dastard.SourceState]string{dastard.Inactive: "Inactive", dastard.Starting: "Starting",
	dastard.Active: "Active", dastard.Stopping: "Stopping"}

type final struct {
	State     string   `json:"state"`
	Exited    bool     `json:"workers_exited"`
	Left      []string `json:"goroutines_left,omitempty"`
	Writing   bool     `json:"writing"`
	DevOpen   bool     `json:"dev_open"`
	AdapterOn bool     `json:"adapter_on"`
	Delivered bool     `json:"delivered"`
	RestartOK bool     `json:"restart_ok"`
	RestartEr string   `json:"restart_err,omitempty"`
}

type outcome struct {
	Events        []sched.Event `json:"events"`
	StartReturned bool          `json:"start_returned"`
	StopsReturned int           `json:"stops_returned"`
	Hung          bool          `json:"hung"`
	Final         final         `json:"final"`
}

// stateOf reads GetState with a guard against a lock that is never released.
func stateOf(a *dastard.AnySource, limit time.Duration) (dastard.SourceState, bool) {
	ch := make(chan dastard.SourceState, 1)
	go func() { ch <- a.GetState() }()
	select {
	case v := <-ch:
		return v, true
	case <-time.After(limit):
		return dastard.Inactive, false
	}
}

func bounded(limit time.Duration, f func()) bool {
	done := make(chan struct{})
	go func() { f(); close(done) }()
	select {
	case <-done:
		return true
	case <-time.After(limit):
		return false
	}
}

func runOnce(c Case, watchdog time.Duration) (outcome, error) {
	var out outcome
	dastard.VerifC10Setup()
	src, err := drv.NewSrc(c.Kind, c.Fault)
	if err != nil {
		return out, err
	}
	if c.SlowClose > 0 && src.SetStopDelay != nil {
		src.SetStopDelay(time.Duration(c.SlowClose) * time.Millisecond)
	}
	base := drv.Goroutines()
	s := sched.New(lib.NewRng(c.Seed), points)
	dastard.VerifSetPointHook(s.Hook)
	defer dastard.VerifSetPointHook(nil)
	qreq := make(chan func())
	tmp := ""
	defer func() {
		if tmp != "" {
			os.RemoveAll(tmp)
		}
	}()

	startClass := ""
	s.Go("start", func() string {
		if dastard.Start(src.DS, qreq, 4, 16) == nil {
			startClass = "ok"
		} else {
			startClass = "err"
		}
		return startClass
	})

	lockParked := func() bool {
		return s.ParkedAt("stop:locked") || s.ParkedAt("stop:abort-closed") || s.InFlightFrom("call:stop", "stop:locked")
	}
	obsState := func() {
		if lockParked() {
			return
		}
		if v, ok := stateOf(src.Any, watchdog); ok {
			s.Record(sched.Event{Kind: "obs", Name: "state", Val: coqState[v]})
		}
	}
	startReturned := false
	var holdUntil time.Time
	heldRead, heldAtReturn := false, false
	retRead, stateAtReturn := false, ""
	var mainRetMu sync.Mutex
	abandon := false // a second Start was accepted: the run is beyond repair, report what was seen
	stepsAfter := 0
	launched := 0
	rng := lib.NewRng(c.Seed ^ 0x5bd1e995)
	const maxSteps = 600

	done := func() bool {
		if !startReturned || launched < len(c.Ops) || s.Pending() > 0 {
			return false
		}
		if len(c.Ops) > 0 || startClass != "ok" {
			return s.NParked() == 0
		}
		if s.Count("core:after-block") >= 2 {
			return true
		}
		if s.NParked() == 0 {
			v, ok := stateOf(src.Any, watchdog)
			return ok && v == dastard.Inactive
		}
		return false
	}

	for {
		if !startReturned && s.Pending() == 0 {
			// Start has just returned: read the state, then the optional extras, before anything else moves
			startReturned = true
			obsState()
			if startClass == "ok" && (c.Write || c.Start2) {
				// the new core loop goroutine parks at its first point without ever having been released
				for i := 0; i < 2000 && !s.ParkedAt("core:before-select"); i++ {
					time.Sleep(100 * time.Microsecond)
				}
			}
			if startClass == "ok" && c.Start2 {
				// a refused Start returns at once; an accepted one would park at its first point
				r := "ok"
				res := make(chan error, 1)
				go func() { res <- dastard.Start(src.DS, qreq, 4, 16) }()
				select {
				case err := <-res:
					if err != nil {
						r = "err"
					}
				case <-time.After(500 * time.Millisecond):
					abandon = true
				}
				s.Record(sched.Event{Kind: "obs", Name: "start2", Val: r})
				if abandon {
					break
				}
			}
			if startClass == "ok" && c.Write && s.ParkedAt("core:before-select") {
				tmp, _ = os.MkdirTemp("", "verif_c10_")
				src.Any.WriteControl(&dastard.WriteControlConfig{Request: "START", Path: tmp, WriteLJH22: true})
				if c.BreakState {
					src.Any.VerifBreakExperimentStateFile()
				}
			}
			if startClass == "ok" && c.Silent && src.Silence != nil {
				src.Silence()
			}
		}
		due := func() bool {
			if !startReturned || launched >= len(c.Ops) {
				return false
			}
			if c.Ops[launched] >= 0 {
				return stepsAfter >= c.Ops[launched]
			}
			if lockParked() {
				return false
			}
			v, ok := stateOf(src.Any, watchdog)
			return ok && v == dastard.Inactive
		}
		for due() {
			launched++
			s.Go("stop", func() string {
				err := src.Any.Stop()
				if s.Passed("stop:before-return") {
					// this call waited for the run to end: it returns only when the source is Inactive
					if v := src.Any.VerifStateNoLock(); v != dastard.Inactive {
						mainRetMu.Lock()
						stateAtReturn = coqState[v]
						mainRetMu.Unlock()
					}
				}
				if err == nil {
					return "ok"
				}
				return "err"
			})
			for i := 0; i < 40 && s.InFlightFrom("call:stop"); i++ { // let it reach its first point
				time.Sleep(100 * time.Microsecond)
			}
		}
		if startReturned && len(c.Ops) > 0 && launched == len(c.Ops) && s.Pending() == 0 && !retRead && !lockParked() {
			// every Stop call has returned: the source must be inactive NOW (not only once the core loop gets round to it)
			retRead = true
			if v, ok := stateOf(src.Any, watchdog); ok && v != dastard.Inactive {
				mainRetMu.Lock()
				stateAtReturn = coqState[v]
				mainRetMu.Unlock()
			}
		}
		if done() {
			if !heldRead && len(c.Ops) > 0 {
				// the last Stop call has just returned: what it promises must hold NOW, not some time later
				heldRead = true
				heldAtReturn = src.DevOpen() || src.AdapterOn()
			}
			if s.WaitActivity(10 * time.Millisecond) {
				continue
			}
			break
		}
		if c.HoldCore && holdUntil.IsZero() && s.InFlightFrom("stop:abort-closed") {
			holdUntil = time.Now().Add(2600 * time.Millisecond) // a Stop caller waits for the core loop: keep it busy
		}
		if time.Now().Before(holdUntil) {
			if !s.Step(func(n string) bool { return !strings.HasPrefix(n, "core:") && n != "rundone:deactivate" }) {
				time.Sleep(20 * time.Millisecond)
			}
			continue
		}
		if startReturned && rng.Chance(1, 4) {
			obsState()
		}
		if s.Steps >= maxSteps {
			out.Hung = true
			break
		}
		if s.Step(nil) {
			if startReturned {
				stepsAfter++
			}
			continue
		}
		// nothing is parked: somebody is running or blocked; wait for an arrival or a return
		if startReturned && launched < len(c.Ops) && c.Ops[launched] >= 0 {
			stepsAfter = c.Ops[launched] // nothing left to release: do not keep the remaining callers waiting
			continue
		}
		if !s.WaitActivity(watchdog) {
			out.Hung = true
			break
		}
	}

	// ---- final readings, taken while every hooked goroutine is parked or gone ----
	out.Events = s.Events()
	for _, e := range out.Events {
		if e.Kind == "ret" && e.Name == "start" {
			out.StartReturned = true
		}
		if e.Kind == "ret" && e.Name == "stop" {
			out.StopsReturned++
		}
	}
	f := &out.Final
	if v, ok := stateOf(src.Any, watchdog); ok {
		f.State = coqState[v]
	} else {
		f.State = "Stopping"
		out.Hung = true
	}
	mainRetMu.Lock()
	defer mainRetMu.Unlock()
	if stateAtReturn != "" {
		f.State = stateAtReturn // what GetState() said when the last Stop call had just returned
	}
	f.Writing = src.Any.WritingIsActive()
	f.Delivered = s.Count("core:after-block") > 0
	wait := 500 * time.Millisecond
	if f.State != "Inactive" {
		wait = 0
	}
	f.Left = drv.NewWorkers(base, wait)
	sort.Strings(f.Left)
	f.Exited = len(f.Left) == 0
	f.DevOpen = src.DevOpen()
	f.AdapterOn = src.AdapterOn()
	if heldAtReturn && c.Kind == "lancero" {
		f.AdapterOn = true // still running when the last Stop returned
	} else if heldAtReturn {
		f.DevOpen = true // still open when the last Stop returned
	}
	if out.Hung {
		s.PassThrough()
		return out, nil
	}

	// ---- clean up, then: can the same source object be configured and started again? ----
	s.PassThrough()
	dastard.VerifSetPointHook(nil)
	if f.State != "Inactive" {
		if !bounded(5*watchdog, func() { src.Any.Stop() }) {
			f.RestartEr = "clean-up Stop did not return"
			return out, nil
		}
	}
	if !bounded(6*watchdog, func() {
		if err := src.Reconf(); err != nil {
			f.RestartEr = err.Error()
			return
		}
		var stopFeed chan struct{}
		if src.Feed != nil {
			stopFeed = make(chan struct{})
			go src.Feed(stopFeed)
			defer close(stopFeed)
		}
		if err := dastard.Start(src.DS, qreq, 4, 16); err != nil {
			f.RestartEr = err.Error()
			return
		}
		f.RestartOK = true
		src.Any.Stop()
	}) {
		f.RestartEr = "restart did not return"
		f.RestartOK = false
	}
	return out, nil
}

// ---- histories through SourceControl.Start / Stop (in process, no socket) ----

type rpcOutcome struct {
	Classes []string `json:"classes"`
	Hung    bool     `json:"hung"`
	Flag    bool     `json:"server_flag"`
	Active  bool     `json:"really_active"`
}

func runRpc(c Case, limit time.Duration) rpcOutcome {
	var out rpcOutcome
	dastard.VerifC10Setup()
	// the only steering in this mode: when armed, the core loop's teardown (between the end of its loop and
	// RunDoneDeactivate) takes 80 ms, and the harness is told when it begins
	var slowTeardown atomic.Bool
	teardown := make(chan struct{}, 16)
	dastard.VerifSetPointHook(func(name string) {
		if name == "core:before-return" && slowTeardown.Load() {
			select {
			case teardown <- struct{}{}:
			default:
			}
			time.Sleep(80 * time.Millisecond)
		}
	})
	defer dastard.VerifSetPointHook(nil)
	sc := dastard.VerifC11NewSourceControl(4, 16)
	var okb bool
	sc.ConfigureTriangleSource(&dastard.TriangleSourceConfig{Nchan: 2, SampleRate: 10000, Min: 100, Max: 110}, &okb)
	sc.ConfigureSimPulseSource(&dastard.SimPulseSourceConfig{Nchan: 2, SampleRate: 10000, Pedestal: 1000, Amplitudes: []float64{5000}, Nsamp: 20}, &okb)
	card := drv.NewCard(2, 1, "")
	ls := dastard.VerifC10NewLancero(card, 2)
	sc.VerifSetLancero(ls)
	waitSelfEnd := func() bool {
		if a := sc.VerifActiveAny(); a != nil && sc.VerifActiveKind() == "erroring" && sc.VerifIsSourceActive() {
			done := make(chan struct{})
			go func() { a.RunDoneWait(); close(done) }()
			select {
			case <-done:
			case <-time.After(limit):
				return false
			}
		}
		return true
	}
	call := func(f func() error) (string, bool) {
		done := make(chan error, 1)
		go func() { done <- f() }()
		select {
		case err := <-done:
			if err == nil {
				return "ok", true
			}
			return "err", true
		case <-time.After(limit):
			return "", false
		}
	}
	for i, o := range c.Rpc {
		var cls string
		ok := true
		switch {
		case strings.HasPrefix(o, "start:"):
			name := map[string]string{"triangle": "TRIANGLESOURCE", "simpulse": "SIMPULSESOURCE", "erroring": "ERRORINGSOURCE",
				"lancero": "LANCEROSOURCE", "lancero-ar": "LANCEROSOURCE"}[o[6:]]
			// a slow teardown only when the next operation is a request meant for that window
			slowTeardown.Store(i+1 < len(c.Rpc) && c.Rpc[i+1] == "req-teardown")
			if !sc.VerifIsSourceActive() {
				ls.VerifC10SetAutoRestart(o == "start:lancero-ar")
			}
			cls, ok = call(func() error { return sc.Start(&name, &okb) })
		case o == "req-teardown" && sc.VerifActiveKind() == "erroring" && sc.VerifIsSourceActive():
			// the request arrives while the source, which has ended its loop by itself, is still tearing down
			// (it still reports Running()); it must be answered once the teardown is over
			select {
			case <-teardown:
			case <-time.After(200 * time.Millisecond): // the loop ended before the steering was armed
			}
			cls, ok = call(func() error {
				st := &dastard.FullTriggerState{ChannelIndices: []int{0}}
				return sc.ConfigureTriggers(st, &okb)
			})
		case o == "req" || o == "req-teardown":
			// a source of a self-ending kind is given the time to end first, so that the answer does not depend on timing
			if !waitSelfEnd() {
				ok = false
				break
			}
			cls, ok = call(func() error {
				st := &dastard.FullTriggerState{ChannelIndices: []int{0}}
				return sc.ConfigureTriggers(st, &okb)
			})
		case o == "stop":
			d := ""
			cls, ok = call(func() error { return sc.Stop(&d, &okb) })
		case o == "selfend":
			// only a source of a self-ending kind ends; wait until its run is over (the server is not told)
			if !waitSelfEnd() {
				out.Hung = true
			}
			continue
		default:
			continue
		}
		if !ok {
			out.Hung = true
			break
		}
		out.Classes = append(out.Classes, cls)
	}
	out.Flag = sc.VerifIsSourceActive()
	if a := sc.VerifActiveAny(); a != nil {
		if v, ok := stateOf(a, limit); ok {
			out.Active = v == dastard.Active
		}
	}
	if !out.Hung && out.Flag {
		d := ""
		call(func() error { return sc.Stop(&d, &okb) })
	} else if !out.Hung && out.Active {
		if a := sc.VerifActiveAny(); a != nil {
			call(func() error { return a.Stop() })
		}
	}
	return out
}

func renderRpc(c Case, out rpcOutcome, crashed bool) string {
	var ops, cls []string
	for _, o := range c.Rpc {
		switch o {
		case "start:triangle":
			ops = append(ops, "RStart RTriangle")
		case "start:simpulse":
			ops = append(ops, "RStart RSimPulse")
		case "start:erroring":
			ops = append(ops, "RStart RErroring")
		case "start:lancero", "start:lancero-ar":
			ops = append(ops, "RStart RLancero")
		case "req", "req-teardown":
			ops = append(ops, "RReq")
		case "selfend":
			ops = append(ops, "RSelfEnd")
		case "stop":
			ops = append(ops, "RStop")
		}
	}
	for _, x := range out.Classes {
		if x == "ok" {
			cls = append(cls, "ROk")
		} else {
			cls = append(cls, "RErr")
		}
	}
	return fmt.Sprintf("mkrpc %s %s %s %s %s", lib.List(ops), lib.List(cls), lib.B(crashed), lib.B(out.Flag), lib.B(out.Active))
}

func runRpcCase(c Case) (lib.Result, error) {
	res := lib.Result{ID: c.ID, Hash: lib.Hash(c.Rpc)}
	out := runRpc(c, 4*time.Second)
	if out.Hung {
		out = runRpc(c, 20*time.Second) // inconclusive first: once more with a five times longer limit
	}
	res.Term = renderRpc(c, out, false)
	res.Impl = out
	tags := map[string]bool{"rpc-history": true}
	selfEnded, stopAfterSelfEnd, restartAfterStop, lastStop := false, false, false, false
	for _, o := range c.Rpc {
		switch {
		case o == "selfend":
			selfEnded = true
		case o == "stop":
			if selfEnded {
				stopAfterSelfEnd = true
			}
			lastStop, selfEnded = true, false
		case strings.HasPrefix(o, "start:"):
			if lastStop {
				restartAfterStop = true
			}
			lastStop, selfEnded = false, false
		}
	}
	if stopAfterSelfEnd {
		tags["rpc:stop-after-self-end"] = true
	}
	if restartAfterStop {
		tags["rpc:restart-after-stop"] = true
	}
	if out.Hung {
		tags["watchdog-expired-twice"] = true
	}
	res.NonTrivial = stopAfterSelfEnd || restartAfterStop
	for t := range tags {
		res.Tags = append(res.Tags, t)
	}
	sort.Strings(res.Tags)
	return res, nil
}

func runCase(c Case) (lib.Result, error) {
	if len(c.Rpc) > 0 {
		return runRpcCase(c)
	}
	res := lib.Result{ID: c.ID, Hash: lib.Hash(struct {
		K, F string
		W, S bool
		Sd   uint64
		O    []int
		Si   bool
		X    []interface{}
	}{c.Kind, c.Fault, c.Write, c.Start2, c.Seed, c.Ops, c.Silent, []interface{}{c.HoldCore, c.SlowClose, c.BreakState}})}
	w := 4 * time.Second
	if c.Silent {
		w = 9 * time.Second // the Abaco reader's own time-out is 5 s
	}
	out, err := runOnce(c, w)
	if err != nil {
		return res, err
	}
	if out.Hung {
		// a watchdog expiry is inconclusive first: run the case once more with a five times longer limit
		out2, err := runOnce(c, 5*w)
		if err != nil {
			return res, err
		}
		if !out2.Hung {
			out = out2
		} else {
			out = out2
			res.Tags = append(res.Tags, "watchdog-expired-twice")
		}
	}
	res.Term = render(c, out, false)
	res.Impl = out
	tags := map[string]bool{"kind:" + c.Kind: true, "fault:" + c.Fault: true, fmt.Sprintf("stoppers:%d", len(c.Ops)): true}
	if c.Write {
		tags["writing"] = true
	}
	if c.Start2 {
		tags["second-start"] = true
	}
	if c.HoldCore {
		tags["core-loop-busy-across-stop"] = true
	}
	if c.SlowClose > 0 {
		tags["slow-device-close"] = true
	}
	if c.BreakState {
		tags["io-fault-at-stop"] = true
	}
	// non-trivial: a Start that failed part-way, or a Stop that was inside its critical section while the
	// core loop had not yet begun to shut down (a genuine race between stop and data flow)
	race := false
	coreShutting := false
	for _, e := range out.Events {
		if e.Kind == "pt" && e.Name == "core:before-return" {
			coreShutting = true
		}
		if e.Kind == "pt" && e.Name == "stop:locked" && !coreShutting && len(c.Ops) > 1 {
			race = true
		}
	}
	if race {
		tags["concurrent-stops"] = true
	}
	res.NonTrivial = race || c.Fault != "none"
	for t := range tags {
		res.Tags = append(res.Tags, t)
	}
	sort.Strings(res.Tags)
	return res, nil
}

func render(c Case, out outcome, crashed bool) string {
	var es []string
	for _, e := range out.Events {
		switch e.Kind {
		case "pt":
			es = append(es, "pt ("+coqPoint[e.Name]+")")
		case "ret":
			call := "CallStart"
			if e.Name == "stop" {
				call = "CallStop"
			}
			cls := "ROk"
			if e.Val != "ok" {
				cls = "RErr"
			}
			es = append(es, "ret "+call+" "+cls)
		case "obs":
			if e.Name == "state" {
				es = append(es, "EObsState "+e.Val)
			} else {
				cls := "ROk"
				if e.Val != "ok" {
					cls = "RErr"
				}
				es = append(es, "EObsStart2 "+cls)
			}
		}
	}
	f := out.Final
	st := f.State
	if st == "" {
		st = "Inactive"
	}
	fin := fmt.Sprintf("(mkFinal %s %s %s %s %s %s %s)", st, lib.B(f.Exited), lib.B(f.Writing), lib.B(f.DevOpen),
		lib.B(f.AdapterOn), lib.B(f.Delivered), lib.B(f.RestartOK))
	return fmt.Sprintf("mk %s %s %s %d%%nat %s %s %d%%nat %s %s", coqKind[c.Kind], coqFault[c.Fault], lib.B(c.Write),
		len(c.Ops), lib.List(es), lib.B(out.StartReturned), out.StopsReturned, lib.B(crashed), fin)
}

// ---- generation ----

var faultsOf = map[string][]string{
	"triangle": {"none", "prepare"}, "simpulse": {"none", "prepare"}, "erroring": {"none"},
	"abaco": {"none", "sample", "samplelate", "prepare"}, "abacoudp": {"prepare"},
	"lancero": {"none", "sample", "samplesilent", "sampleread", "runearly", "runlate"},
}

func gen(seed uint64, tier string) []interface{} {
	r := lib.NewRng(seed)
	var out []interface{}
	id := int64(1)
	add := func(c Case) {
		c.ID = id
		id++
		if c.Ops == nil {
			c.Ops = []int{}
		}
		out = append(out, c)
	}
	// corpus: every kind x fault, with 0..3 stoppers; the defect witnesses first
	add(Case{Kind: "abacoudp", Fault: "prepare", Seed: 1, Ops: []int{0}}) // UDP receiver configured, no packets arriving
	add(Case{Kind: "abaco", Fault: "prepare", Seed: 1, Ops: []int{}})
	add(Case{Kind: "lancero", Fault: "runlate", Seed: 1, Ops: []int{1}})
	add(Case{Kind: "abaco", Fault: "none", Seed: 1, Write: true, Silent: true, Ops: []int{-1}}) // the source ends by itself while writing
	add(Case{Kind: "triangle", Fault: "none", Seed: 2, Ops: []int{2}, HoldCore: true})          // the core loop stays busy for 2.6 s while Stop waits
	add(Case{Kind: "abaco", Fault: "none", Seed: 2, Ops: []int{1}, SlowClose: 300})             // closing the devices takes 300 ms
	add(Case{Kind: "abaco", Fault: "none", Seed: 3, Ops: []int{0, 1}, SlowClose: 250})
	add(Case{Kind: "triangle", Fault: "none", Seed: 3, Write: true, BreakState: true, Ops: []int{2}})             // the STOP label cannot be written
	add(Case{Kind: "simpulse", Fault: "none", Seed: 4, Write: true, BreakState: true, Ops: []int{0, 0}})          // same, two callers
	add(Case{Kind: "abaco", Fault: "none", Seed: 5, Write: true, BreakState: true, Silent: true, Ops: []int{-1}}) // same, the run ends by itself
	// histories through the RPC entry points: Stop arriving after the source ended by itself, repeated Stop, restart
	for _, h := range [][]string{
		{"start:erroring", "selfend", "stop", "start:erroring"},
		{"start:erroring", "selfend", "stop", "stop", "start:triangle", "stop"},
		{"start:erroring", "stop", "start:simpulse", "stop"},
		{"start:triangle", "stop", "stop", "start:triangle", "stop"},
		{"start:triangle", "start:simpulse", "stop", "start:simpulse", "stop", "start:erroring", "selfend", "stop"},
		{"stop", "start:simpulse", "selfend", "stop", "start:erroring", "selfend", "start:triangle", "stop", "start:triangle"},
		{"start:lancero", "req", "stop", "start:lancero", "req", "req", "stop"}, // a hardware-type source serves requests, then stops
		{"start:lancero-ar", "stop", "start:triangle", "stop"},                  // configured to auto-restart: an operator Stop still stops it
		{"start:lancero-ar", "req", "stop", "stop", "req", "start:lancero-ar", "stop"},
		{"start:erroring", "req", "stop", "start:triangle", "req", "stop", "req"},
		{"start:erroring", "req-teardown", "stop", "start:erroring", "req-teardown", "req", "start:triangle", "stop"}, // a request while the self-ended source tears down
		{"start:erroring", "req-teardown", "start:simpulse", "req-teardown", "stop"},
	} {
		add(Case{Rpc: h})
	}
	kinds := []string{"triangle", "simpulse", "erroring", "abaco", "lancero"}
	for _, k := range kinds {
		for _, f := range faultsOf[k] {
			for n := 0; n <= 3; n++ {
				if (k == "abaco" || k == "lancero") && n == 3 {
					continue
				}
				ops := make([]int, n)
				for i := range ops {
					ops[i] = i * 2
				}
				add(Case{Kind: k, Fault: f, Seed: uint64(10*n + len(f)), Ops: ops, Write: k == "triangle" && f == "none" && n == 2,
					Start2: k == "simpulse" && f == "none" && n == 1})
			}
		}
	}
	nrand := 110
	if tier == "thorough" {
		nrand = 1500
	}
	for i := 0; i < nrand; i++ {
		q := r.Fork()
		var k string
		switch x := q.Intn(20); {
		case x < 8:
			k = "triangle"
		case x < 12:
			k = "simpulse"
		case x < 15:
			k = "erroring"
		case x < 18:
			k = "abaco"
		default:
			k = "lancero"
		}
		f := "none"
		if q.Chance(1, 5) {
			f = faultsOf[k][q.Intn(len(faultsOf[k]))]
		}
		n := q.Pick([]int{0, 1, 1, 2, 2, 2, 3, 3, 4, 5})
		if k == "abaco" || k == "lancero" {
			n = q.Pick([]int{0, 1, 2, 2, 3})
		}
		ops := make([]int, n)
		at := 0
		for j := range ops {
			// callers arrive together (a burst) or spread over the first block cycles
			if !q.Chance(1, 2) {
				at += q.Range(0, 6)
			}
			ops[j] = at
		}
		slow := 0
		if k == "abaco" && f == "none" && q.Chance(1, 3) {
			slow = q.Pick([]int{60, 150, 300})
		}
		add(Case{Kind: k, Fault: f, Seed: q.U64() % 1000003, Ops: ops, SlowClose: slow,
			HoldCore: tier == "thorough" && n > 0 && f == "none" && q.Chance(1, 40),
			Write:    (k == "triangle" || k == "simpulse") && f == "none" && q.Chance(1, 4),
			Start2:   (k == "triangle" || k == "simpulse") && f == "none" && q.Chance(1, 5)})
	}
	nrpc := 30
	if tier == "thorough" {
		nrpc = 300
	}
	for i := 0; i < nrpc; i++ {
		q := r.Fork()
		var h []string
		for j, n := 0, q.Range(3, 9); j < n; j++ {
			switch x := q.Intn(10); {
			case x < 2:
				h = append(h, "start:triangle")
			case x < 3:
				h = append(h, "start:simpulse")
			case x < 5:
				h = append(h, "start:erroring")
			case x < 6:
				h = append(h, []string{"start:lancero", "start:lancero-ar", "req", "req", "req-teardown"}[q.Intn(5)])
			case x < 7:
				h = append(h, "selfend")
			default:
				h = append(h, "stop")
			}
		}
		add(Case{Rpc: h})
	}
	if tier == "thorough" {
		add(Case{Kind: "abacoudp", Fault: "prepare", Seed: 2, Ops: []int{}})
	}
	return out
}

func main() {
	log.SetOutput(io.Discard)
	if os.Getenv("VERIF_C10_DEBUG") == "" {
		devnull, _ := os.OpenFile(os.DevNull, os.O_WRONLY, 0)
		os.Stdout = devnull
	}
	h := lib.Harness{
		Gen: gen,
		RunCase: func(raw json.RawMessage) (lib.Result, error) {
			var c Case
			if err := json.Unmarshal(raw, &c); err != nil {
				return lib.Result{}, err
			}
			return runCase(c)
		},
		Crash: func(raw json.RawMessage, stderr string) (lib.Result, error) {
			var c Case
			if err := json.Unmarshal(raw, &c); err != nil {
				return lib.Result{}, err
			}
			lines := strings.Split(strings.TrimSpace(stderr), "\n")
			first := ""
			for _, l := range lines {
				if strings.HasPrefix(l, "panic:") || strings.HasPrefix(l, "fatal error:") {
					first = l
					break
				}
			}
			if len(c.Rpc) > 0 {
				return lib.Result{ID: c.ID, Term: renderRpc(c, rpcOutcome{}, true), Impl: map[string]string{"crash": first},
					Tags: []string{"crash", "rpc-history"}, Hash: lib.Hash(c)}, nil
			}
			return lib.Result{ID: c.ID, Term: render(c, outcome{}, true), Impl: map[string]string{"crash": first},
				Tags: []string{"crash", "kind:" + c.Kind}, Hash: lib.Hash(c)}, nil
		},
		Header:   "From Dastard Require Import Common.ZX Common.CaseLib C10.Conc C10.Model C10.Spec C10.RpcModel C10.RpcSpec C10.Run.",
		Verdict:  "verdict",
		PerShard: 40,
		Isolate:  true,
		Chunk:    3,
		Workers:  12,
	}
	h.Main()
}
