// Package lib: shared plumbing of the correspondence harness (PRNG, case files, Coq shard files, stats).
package lib

import (
	"bufio"
	"crypto/sha256"
	"encoding/hex"
	"encoding/json"
	"flag"
	"fmt"
	"os"
	"path/filepath"
	"sort"
	"strings"
)

// ---------- PRNG: splitmix64, the only source of randomness ----------

type Rng struct{ s uint64 }

func NewRng(seed uint64) *Rng { return &Rng{s: seed*0x9E3779B97F4A7C15 + 0x1234567} }
func (r *Rng) U64() uint64 {
	r.s += 0x9E3779B97F4A7C15
	z := r.s
	z = (z ^ (z >> 30)) * 0xBF58476D1CE4E5B9
	z = (z ^ (z >> 27)) * 0x94D049BB133111EB
	return z ^ (z >> 31)
}

// Intn returns a value in [0,n).
func (r *Rng) Intn(n int) int {
	if n <= 0 {
		return 0
	}
	return int(r.U64() % uint64(n))
}

// Range returns a value in [lo,hi].
func (r *Rng) Range(lo, hi int) int { return lo + r.Intn(hi-lo+1) }
func (r *Rng) Bool() bool          { return r.U64()&1 == 1 }
func (r *Rng) Chance(num, den int) bool { return r.Intn(den) < num }
func (r *Rng) Pick(xs []int) int   { return xs[r.Intn(len(xs))] }
func (r *Rng) Fork() *Rng          { return NewRng(r.U64()) }

// ---------- Coq term rendering ----------

func Z(v int64) string {
	if v < 0 {
		return fmt.Sprintf("(%d)", v)
	}
	return fmt.Sprintf("%d", v)
}
func ZU(v uint64) string { return fmt.Sprintf("%d", v) }
func B(b bool) string {
	if b {
		return "true"
	}
	return "false"
}
func ZList64(xs []int64) string {
	var sb strings.Builder
	sb.WriteByte('[')
	for i, x := range xs {
		if i > 0 {
			sb.WriteByte(';')
		}
		sb.WriteString(Z(x))
	}
	sb.WriteByte(']')
	return sb.String()
}
func ZListInt(xs []int) string {
	ys := make([]int64, len(xs))
	for i, x := range xs {
		ys[i] = int64(x)
	}
	return ZList64(ys)
}
func ZListBytes(xs []byte) string {
	ys := make([]int64, len(xs))
	for i, x := range xs {
		ys[i] = int64(x)
	}
	return ZList64(ys)
}
func ZListU16(xs []uint16) string {
	ys := make([]int64, len(xs))
	for i, x := range xs {
		ys[i] = int64(x)
	}
	return ZList64(ys)
}
func List(items []string) string { return "[" + strings.Join(items, "; ") + "]" }

// ---------- case files (JSON lines) ----------

// ReadCases reads one JSON value per line into raw messages.
func ReadCases(path string) ([]json.RawMessage, error) {
	f, err := os.Open(path)
	if err != nil {
		return nil, err
	}
	defer f.Close()
	var out []json.RawMessage
	sc := bufio.NewScanner(f)
	sc.Buffer(make([]byte, 1<<20), 1<<30)
	for sc.Scan() {
		line := strings.TrimSpace(sc.Text())
		if line == "" {
			continue
		}
		out = append(out, json.RawMessage(append([]byte(nil), line...)))
	}
	return out, sc.Err()
}

func WriteJSONLines(path string, vals []interface{}) error {
	f, err := os.Create(path)
	if err != nil {
		return err
	}
	w := bufio.NewWriter(f)
	for _, v := range vals {
		b, err := json.Marshal(v)
		if err != nil {
			return err
		}
		w.Write(b)
		w.WriteByte('\n')
	}
	if err := w.Flush(); err != nil {
		return err
	}
	return f.Close()
}

// ---------- run output: Coq shards + implementation outputs + statistics ----------

// Result of running one case against the implementation.
type Result struct {
	ID         int64       `json:"id"`
	Term       string      `json:"-"`          // Coq term of type `case` (inputs + observed outputs)
	Impl       interface{} `json:"impl"`       // observed outputs, for the replay file
	NonTrivial bool        `json:"nontrivial"` // by the property's stated rule
	Tags       []string    `json:"tags"`       // input features (for the distribution report and finding matchers)
	Hash       string      `json:"hash"`       // content hash of the input
}

func Hash(v interface{}) string {
	b, _ := json.Marshal(v)
	h := sha256.Sum256(b)
	return hex.EncodeToString(h[:8])
}

type Stats struct {
	Evaluations        int            `json:"evaluations"`
	DistinctNontrivial int            `json:"distinct_nontrivial"`
	Distinct           int            `json:"distinct"`
	TagHistogram       map[string]int `json:"tag_histogram"`
	Shards             []string       `json:"shards"`
}

// WriteRun writes shards (at most perShard cases each), impl.jsonl and stats.json into dir.
// header is the Require line(s); verdictFn the name of the `case -> Z * Z` function.
func WriteRun(dir, header, verdictFn string, results []Result, perShard int) error {
	if err := os.MkdirAll(dir, 0o755); err != nil {
		return err
	}
	old, _ := filepath.Glob(filepath.Join(dir, "shard_*.v"))
	for _, o := range old {
		os.Remove(o)
	}
	st := Stats{TagHistogram: map[string]int{}}
	seen := map[string]bool{}
	seenNT := map[string]bool{}
	impl := make([]interface{}, 0, len(results))
	for _, r := range results {
		st.Evaluations++
		if !seen[r.Hash] {
			seen[r.Hash] = true
		}
		if r.NonTrivial && !seenNT[r.Hash] {
			seenNT[r.Hash] = true
		}
		for _, t := range r.Tags {
			st.TagHistogram[t]++
		}
		impl = append(impl, r)
	}
	st.Distinct = len(seen)
	st.DistinctNontrivial = len(seenNT)
	if perShard <= 0 {
		perShard = 100
	}
	for i, k := 0, 0; i < len(results); i, k = i+perShard, k+1 {
		j := i + perShard
		if j > len(results) {
			j = len(results)
		}
		name := fmt.Sprintf("shard_%03d.v", k)
		f, err := os.Create(filepath.Join(dir, name))
		if err != nil {
			return err
		}
		w := bufio.NewWriter(f)
		fmt.Fprintf(w, "%s\nOpen Scope Z_scope.\nDefinition cases := [\n", header)
		for n, r := range results[i:j] {
			sep := ";"
			if n == j-i-1 {
				sep = ""
			}
			fmt.Fprintf(w, " (%s, %s)%s\n", Z(r.ID), r.Term, sep)
		}
		fmt.Fprintf(w, "].\nDefinition R := Eval vm_compute in bad_cases %s cases.\nPrint R.\n", verdictFn)
		if err := w.Flush(); err != nil {
			return err
		}
		f.Close()
		st.Shards = append(st.Shards, name)
	}
	if err := WriteJSONLines(filepath.Join(dir, "impl.jsonl"), impl); err != nil {
		return err
	}
	b, _ := json.MarshalIndent(st, "", " ")
	return os.WriteFile(filepath.Join(dir, "stats.json"), b, 0o644)
}

// SortedKeys is a helper for deterministic iteration.
func SortedKeys(m map[string]int) []string {
	ks := make([]string, 0, len(m))
	for k := range m {
		ks = append(ks, k)
	}
	sort.Strings(ks)
	return ks
}

// ---------- command-line skeleton shared by every per-property binary ----------

// Main implements:  hx gen -seed S -tier T -out cases.jsonl     and     hx run -in cases.jsonl -out DIR
func Main(gen func(seed uint64, tier string) []interface{}, run func(cases []json.RawMessage, dir string) error) {
	if len(os.Args) < 2 {
		fmt.Fprintln(os.Stderr, "usage: gen|run ...")
		os.Exit(2)
	}
	switch os.Args[1] {
	case "gen":
		fs := flag.NewFlagSet("gen", flag.ExitOnError)
		seed := fs.Uint64("seed", 1, "")
		tier := fs.String("tier", "quick", "")
		out := fs.String("out", "cases.jsonl", "")
		fs.Parse(os.Args[2:])
		if err := WriteJSONLines(*out, gen(*seed, *tier)); err != nil {
			fmt.Fprintln(os.Stderr, err)
			os.Exit(2)
		}
	case "run":
		fs := flag.NewFlagSet("run", flag.ExitOnError)
		in := fs.String("in", "cases.jsonl", "")
		out := fs.String("out", ".", "")
		fs.Parse(os.Args[2:])
		cases, err := ReadCases(*in)
		if err == nil {
			err = run(cases, *out)
		}
		if err != nil {
			fmt.Fprintln(os.Stderr, err)
			os.Exit(2)
		}
	default:
		fmt.Fprintln(os.Stderr, "unknown subcommand")
		os.Exit(2)
	}
}
