// Package lib: shared plumbing of the correspondence harness (PRNG, case files, Coq shard files, stats).
package lib

import (
	"bufio"
	"crypto/sha256"
	"encoding/hex"
	"encoding/json"
	"flag"
	"fmt"
	"os"
	"os/exec"
	"path/filepath"
	"sort"
	"strings"
	"sync"
)

// ---------- PRNG: splitmix64, the only source of randomness ----------

type Rng struct{ s uint64 }

func NewRng(seed uint64) *Rng { return &Rng{s: seed*0x9E3779B97F4A7C15 + 0x1234567} }
func (r *Rng) U64() uint64 {
	r.s += 0x9E3779B97F4A7C15
	z := r.s
	z = (z ^ (z >> 30)) * 0xBF58476D1CE4E5B9
	z = (z ^ (z >> 27)) * 0x94D049BB133111EB
	return z ^ (z >> 31)
}

// Intn returns a value in [0,n).
func (r *Rng) Intn(n int) int {
	if n <= 0 {
		return 0
	}
	return int(r.U64() % uint64(n))
}

// Range returns a value in [lo,hi].
func (r *Rng) Range(lo, hi int) int     { return lo + r.Intn(hi-lo+1) }
func (r *Rng) Bool() bool               { return r.U64()&1 == 1 }
func (r *Rng) Chance(num, den int) bool { return r.Intn(den) < num }
func (r *Rng) Pick(xs []int) int        { return xs[r.Intn(len(xs))] }
func (r *Rng) Fork() *Rng               { return NewRng(r.U64()) }

// ---------- Coq term rendering ----------

func Z(v int64) string {
	if v < 0 {
		return fmt.Sprintf("(%d)", v)
	}
	return fmt.Sprintf("%d", v)
}
func ZU(v uint64) string { return fmt.Sprintf("%d", v) }
func B(b bool) string {
	if b {
		return "true"
	}
	return "false"
}
func ZList64(xs []int64) string {
	var sb strings.Builder
	sb.WriteByte('[')
	for i, x := range xs {
		if i > 0 {
			sb.WriteByte(';')
		}
		sb.WriteString(Z(x))
	}
	sb.WriteByte(']')
	return sb.String()
}
func ZListInt(xs []int) string {
	ys := make([]int64, len(xs))
	for i, x := range xs {
		ys[i] = int64(x)
	}
	return ZList64(ys)
}
func ZListBytes(xs []byte) string {
	ys := make([]int64, len(xs))
	for i, x := range xs {
		ys[i] = int64(x)
	}
	return ZList64(ys)
}
func ZListU16(xs []uint16) string {
	ys := make([]int64, len(xs))
	for i, x := range xs {
		ys[i] = int64(x)
	}
	return ZList64(ys)
}
func List(items []string) string { return "[" + strings.Join(items, "; ") + "]" }

// ---------- case files (JSON lines) ----------

// ReadCases reads one JSON value per line into raw messages.
func ReadCases(path string) ([]json.RawMessage, error) {
	f, err := os.Open(path)
	if err != nil {
		return nil, err
	}
	defer f.Close()
	var out []json.RawMessage
	sc := bufio.NewScanner(f)
	sc.Buffer(make([]byte, 1<<20), 1<<30)
	for sc.Scan() {
		line := strings.TrimSpace(sc.Text())
		if line == "" {
			continue
		}
		out = append(out, json.RawMessage(append([]byte(nil), line...)))
	}
	return out, sc.Err()
}

func WriteJSONLines(path string, vals []interface{}) error {
	f, err := os.Create(path)
	if err != nil {
		return err
	}
	w := bufio.NewWriter(f)
	for _, v := range vals {
		b, err := json.Marshal(v)
		if err != nil {
			return err
		}
		w.Write(b)
		w.WriteByte('\n')
	}
	if err := w.Flush(); err != nil {
		return err
	}
	return f.Close()
}

// ---------- run output: Coq shards + implementation outputs + statistics ----------

// Result of running one case against the implementation.
type Result struct {
	ID         int64       `json:"id"`
	Term       string      `json:"term,omitempty"`  // Coq term of type `case` (inputs + observed outputs)
	Impl       interface{} `json:"impl"`            // observed outputs, for the replay file
	NonTrivial bool        `json:"nontrivial"`      // by the property's stated rule
	Tags       []string    `json:"tags"`            // input features (for the distribution report and finding matchers)
	Hash       string      `json:"hash"`            // content hash of the input
	Heavy      bool        `json:"heavy,omitempty"` // expensive to evaluate in Coq: gets a shard file of its own
}

func Hash(v interface{}) string {
	b, _ := json.Marshal(v)
	h := sha256.Sum256(b)
	return hex.EncodeToString(h[:8])
}

type Stats struct {
	Evaluations        int            `json:"evaluations"`
	DistinctNontrivial int            `json:"distinct_nontrivial"`
	Distinct           int            `json:"distinct"`
	TagHistogram       map[string]int `json:"tag_histogram"`
	Shards             []string       `json:"shards"`
}

// WriteRun writes shards (at most perShard cases each), impl.jsonl and stats.json into dir.
// header is the Require line(s); verdictFn the name of the `case -> Z * Z` function.
func WriteRun(dir, header, verdictFn string, results []Result, perShard int) error {
	if err := os.MkdirAll(dir, 0o755); err != nil {
		return err
	}
	old, _ := filepath.Glob(filepath.Join(dir, "shard_*.v"))
	for _, o := range old {
		os.Remove(o)
	}
	st := Stats{TagHistogram: map[string]int{}}
	seen := map[string]bool{}
	seenNT := map[string]bool{}
	impl := make([]interface{}, 0, len(results))
	for _, r := range results {
		st.Evaluations++
		if !seen[r.Hash] {
			seen[r.Hash] = true
		}
		if r.NonTrivial && !seenNT[r.Hash] {
			seenNT[r.Hash] = true
		}
		for _, t := range r.Tags {
			st.TagHistogram[t]++
		}
		rr := r
		rr.Term = ""
		impl = append(impl, rr)
	}
	st.Distinct = len(seen)
	st.DistinctNontrivial = len(seenNT)
	if perShard <= 0 {
		perShard = 100
	}
	// heavy cases first, one shard each (shards are evaluated in parallel); the rest in groups of perShard
	var groups [][]Result
	var light []Result
	for _, r := range results {
		if r.Heavy {
			groups = append(groups, []Result{r})
		} else {
			light = append(light, r)
		}
	}
	for i := 0; i < len(light); i += perShard {
		j := i + perShard
		if j > len(light) {
			j = len(light)
		}
		groups = append(groups, light[i:j])
	}
	for k, grp := range groups {
		name := fmt.Sprintf("shard_%03d.v", k)
		f, err := os.Create(filepath.Join(dir, name))
		if err != nil {
			return err
		}
		w := bufio.NewWriter(f)
		// one Definition per case keeps each term small (a single huge list literal overflows coqc's stack)
		fmt.Fprintf(w, "%s\nOpen Scope Z_scope.\n", header)
		for n, r := range grp {
			fmt.Fprintf(w, "Definition case_%d := %s.\n", n, r.Term)
		}
		fmt.Fprintf(w, "Definition cases := [\n")
		for n, r := range grp {
			sep := ";"
			if n == len(grp)-1 {
				sep = ""
			}
			fmt.Fprintf(w, " (%s, case_%d)%s\n", Z(r.ID), n, sep)
		}
		fmt.Fprintf(w, "].\nDefinition R := Eval vm_compute in bad_cases %s cases.\nPrint R.\n", verdictFn)
		if err := w.Flush(); err != nil {
			return err
		}
		f.Close()
		st.Shards = append(st.Shards, name)
	}
	if err := WriteJSONLines(filepath.Join(dir, "impl.jsonl"), impl); err != nil {
		return err
	}
	b, _ := json.MarshalIndent(st, "", " ")
	return os.WriteFile(filepath.Join(dir, "stats.json"), b, 0o644)
}

// SortedKeys is a helper for deterministic iteration.
func SortedKeys(m map[string]int) []string {
	ks := make([]string, 0, len(m))
	for k := range m {
		ks = append(ks, k)
	}
	sort.Strings(ks)
	return ks
}

// ---------- command-line skeleton shared by every per-property binary ----------

// Harness describes one property's driver.
type Harness struct {
	Gen      func(seed uint64, tier string) []interface{}
	RunCase  func(raw json.RawMessage) (Result, error)
	Crash    func(raw json.RawMessage, stderr string) (Result, error) // how to render a case that killed the process (nil: fatal)
	Header   string                                                   // Require line(s) of generated shard files
	Verdict  string                                                   // name of the `case -> Z * Z` function
	PerShard int
	Isolate  bool // run cases in child processes (needed when a defect can kill the process)
	Chunk    int  // cases per child process
	Workers  int  // concurrent child processes
}

func fatal(err error) {
	fmt.Fprintln(os.Stderr, err)
	os.Exit(2)
}

func (h *Harness) runInProcess(cases []json.RawMessage) ([]Result, error) {
	var out []Result
	for _, raw := range cases {
		r, err := h.RunCase(raw)
		if err != nil {
			return nil, err
		}
		out = append(out, r)
	}
	return out, nil
}

// runChild runs the cases in one child process; on a crash it bisects down to single cases.
func (h *Harness) runChild(cases []json.RawMessage, tmpdir string, tag string) ([]Result, error) {
	in := filepath.Join(tmpdir, "chunk_"+tag+".jsonl")
	outp := filepath.Join(tmpdir, "chunk_"+tag+".out")
	vals := make([]interface{}, len(cases))
	for i, c := range cases {
		vals[i] = c
	}
	if err := WriteJSONLines(in, vals); err != nil {
		return nil, err
	}
	defer os.Remove(in)
	defer os.Remove(outp)
	cmd := exec.Command(os.Args[0], "runchunk", "-in", in, "-out", outp)
	var stderr strings.Builder
	cmd.Stderr = &stderr
	err := cmd.Run()
	if err == nil {
		raws, err := ReadCases(outp)
		if err != nil {
			return nil, err
		}
		res := make([]Result, len(raws))
		for i, r := range raws {
			if err := json.Unmarshal(r, &res[i]); err != nil {
				return nil, err
			}
		}
		if len(res) != len(cases) {
			return nil, fmt.Errorf("child returned %d results for %d cases", len(res), len(cases))
		}
		return res, nil
	}
	if len(cases) == 1 {
		if h.Crash == nil {
			return nil, fmt.Errorf("case crashed the harness process: %s\n%s", string(cases[0]), tail(stderr.String(), 3000))
		}
		r, err := h.Crash(cases[0], tail(stderr.String(), 3000))
		if err != nil {
			return nil, err
		}
		return []Result{r}, nil
	}
	mid := len(cases) / 2
	a, err := h.runChild(cases[:mid], tmpdir, tag+"a")
	if err != nil {
		return nil, err
	}
	b, err := h.runChild(cases[mid:], tmpdir, tag+"b")
	if err != nil {
		return nil, err
	}
	return append(a, b...), nil
}

func tail(s string, n int) string {
	if len(s) > n {
		return s[len(s)-n:]
	}
	return s
}

func (h *Harness) runIsolated(cases []json.RawMessage, dir string) ([]Result, error) {
	chunk := h.Chunk
	if chunk <= 0 {
		chunk = 25
	}
	workers := h.Workers
	if workers <= 0 {
		workers = 8
	}
	type job struct {
		idx   int
		cases []json.RawMessage
	}
	var jobs []job
	for i := 0; i < len(cases); i += chunk {
		j := i + chunk
		if j > len(cases) {
			j = len(cases)
		}
		jobs = append(jobs, job{len(jobs), cases[i:j]})
	}
	results := make([][]Result, len(jobs))
	errs := make([]error, len(jobs))
	var wg sync.WaitGroup
	sem := make(chan struct{}, workers)
	for _, jb := range jobs {
		wg.Add(1)
		sem <- struct{}{}
		go func(jb job) {
			defer wg.Done()
			defer func() { <-sem }()
			results[jb.idx], errs[jb.idx] = h.runChild(jb.cases, dir, fmt.Sprintf("%d", jb.idx))
		}(jb)
	}
	wg.Wait()
	var out []Result
	for i := range jobs {
		if errs[i] != nil {
			return nil, errs[i]
		}
		out = append(out, results[i]...)
	}
	return out, nil
}

// Main implements:  hx gen -seed S -tier T -out cases.jsonl   |   hx run -in cases.jsonl -out DIR   |   hx runchunk (internal)
func (h *Harness) Main() {
	if len(os.Args) < 2 {
		fmt.Fprintln(os.Stderr, "usage: gen|run ...")
		os.Exit(2)
	}
	switch os.Args[1] {
	case "gen":
		fs := flag.NewFlagSet("gen", flag.ExitOnError)
		seed := fs.Uint64("seed", 1, "")
		tier := fs.String("tier", "quick", "")
		out := fs.String("out", "cases.jsonl", "")
		fs.Parse(os.Args[2:])
		if err := WriteJSONLines(*out, h.Gen(*seed, *tier)); err != nil {
			fatal(err)
		}
	case "run":
		fs := flag.NewFlagSet("run", flag.ExitOnError)
		in := fs.String("in", "cases.jsonl", "")
		out := fs.String("out", ".", "")
		fs.Parse(os.Args[2:])
		cases, err := ReadCases(*in)
		if err != nil {
			fatal(err)
		}
		if err := os.MkdirAll(*out, 0o755); err != nil {
			fatal(err)
		}
		var results []Result
		if h.Isolate {
			results, err = h.runIsolated(cases, *out)
		} else {
			results, err = h.runInProcess(cases)
		}
		if err != nil {
			fatal(err)
		}
		if err := WriteRun(*out, h.Header, h.Verdict, results, h.PerShard); err != nil {
			fatal(err)
		}
	case "runchunk":
		fs := flag.NewFlagSet("runchunk", flag.ExitOnError)
		in := fs.String("in", "", "")
		out := fs.String("out", "", "")
		fs.Parse(os.Args[2:])
		cases, err := ReadCases(*in)
		if err != nil {
			fatal(err)
		}
		results, err := h.runInProcess(cases)
		if err != nil {
			fatal(err)
		}
		vals := make([]interface{}, len(results))
		for i, r := range results {
			vals[i] = r
		}
		if err := WriteJSONLines(*out, vals); err != nil {
			fatal(err)
		}
	default:
		fmt.Fprintln(os.Stderr, "unknown subcommand")
		os.Exit(2)
	}
}

// Pick2 returns one of two strings.
func (r *Rng) Pick2(a, b string) string {
	if r.Bool() {
		return a
	}
	return b
}

// PickU64 returns one of the given values.
func (r *Rng) PickU64(xs []uint64) uint64 { return xs[r.Intn(len(xs))] }
