// Package pipe: helpers shared by the block-pipeline harnesses (C01, C02, C08, C09, C13, C20, ...).
package pipe

import (
	"fmt"

	"verifharness/lib"
)

// Stream kinds for GenStream.
const (
	KindFlatPulses = iota // flat baseline with pulses of both signs
	KindRandomWalk
	KindFullScale // values near 0, 32767/32768, 65535 (wrap-around for signed channels)
	KindNoise
	NKinds
)

// GenStream makes n samples. Pulse positions are returned for the caller's non-triviality rules.
func GenStream(r *lib.Rng, n int, kind int) (data []uint16, pulseAt []int) {
	data = make([]uint16, n)
	switch kind {
	case KindFlatPulses:
		base := r.Range(1000, 60000)
		for i := range data {
			data[i] = uint16(base + r.Range(-2, 2))
		}
		np := r.Range(1, 1+n/40)
		for k := 0; k < np; k++ {
			at := r.Intn(n)
			amp := r.Range(200, 5000)
			if r.Chance(1, 4) {
				amp = -amp
			}
			decay := r.Range(3, 60)
			for i := at; i < n && i < at+decay*6; i++ {
				v := int(data[i]) + amp*(decay*6-(i-at))/(decay*6)
				if v < 0 {
					v = 0
				}
				if v > 65535 {
					v = 65535
				}
				data[i] = uint16(v)
			}
			pulseAt = append(pulseAt, at)
		}
	case KindRandomWalk:
		v := r.Range(0, 65535)
		step := r.Pick([]int{1, 5, 50, 500})
		for i := range data {
			v += r.Range(-step, step)
			data[i] = uint16(v) // wraps
		}
	case KindFullScale:
		pts := []int{0, 1, 2, 32766, 32767, 32768, 32769, 65533, 65534, 65535}
		for i := range data {
			data[i] = uint16(r.Pick(pts))
		}
	default:
		for i := range data {
			data[i] = uint16(r.U64())
		}
	}
	return
}

// Partition cuts n samples into block lengths drawn from the boundary-hunting set of DESIGN section 7 C01.
func Partition(r *lib.Rng, n, npre, nsamp int) []int {
	var out []int
	style := r.Intn(5)
	for n > 0 {
		var k int
		switch style {
		case 0:
			k = r.Pick([]int{1, 2, 3})
		case 1:
			k = r.Pick([]int{npre, nsamp - 1, nsamp, nsamp + 1})
		case 2:
			k = 2*nsamp + r.Range(9, 11)
		case 3:
			k = r.Range(3, 5) * nsamp
		default:
			k = r.Pick([]int{1, 2, 3, npre, nsamp - 1, nsamp, nsamp + 1, 2*nsamp + 10, 3 * nsamp, r.Range(1, 4*nsamp)})
		}
		if k < 1 {
			k = 1
		}
		if k > n {
			k = n
		}
		out = append(out, k)
		n -= k
	}
	return out
}

// RecTerm renders a record as the Coq term  (mkrec frame time pre data signed)  (Pipeline.Stream.record).
func RecTerm(frame, timeNs int64, pre int, data []uint16, signed bool) string {
	return fmt.Sprintf("(mkrec %s %s %d %s %s)", lib.Z(frame), lib.Z(timeNs), pre, lib.ZListU16(data), lib.B(signed))
}
